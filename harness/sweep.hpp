// Selector sweeps ("vd --sweep <spec> <out> <shard> <nshards>"): run one registered entry point over a huge, regular set of
// arguments (every float32 bit pattern, or every stride-th one; for 64-bit types a seeded sample of neighbouring rows), rank the
// rows with a cheap reference (libm in a wider format, the C library's rounding functions, the function itself at -x, the
// iteration counters of the XSIMD_VERIF hook) and write the highest-ranked row of every binade.  The sweep JUDGES NOTHING: the
// selected rows become ordinary plan lines, are executed again on every architecture by the plan interpreter and are judged by
// TLC against the specification (for C10/C11 against the mpmath table of the uninterpreted constant Exact).  A wrong ranking can
// therefore make a check miss something, never report something.
//
// spec line:  <kind> <op> <type> <arch> <mode> <ref|-> <stride|rows> <seed> <lo> <hi> <signs>
//   type   f32 | i32 | u32 (exhaustive/strided over 32-bit patterns)   f64 (sampled rows)
//   mode   ulp   score = |r - ref(x)| in ulps of ref(x)                 (reference: double libm for f32, long double libm for f64)
//          ulp1  the same in ulps of max(|ref(x)|, 1)                    (lgamma)
//          eq    r differs from the C library's result (same format; zeros of either sign and NaNs of any payload are equal)
//          eqi   integer result differs from lrint/trunc of the argument (only when it fits)
//          cvi   float result differs from (float)(int32)x / (float)(uint32)x
//          dom   r is NaN where the C library's result is not, or the reverse (domain errors, C12)
//          odd / even   f(-x) differs from -f(x) / f(x) bit for bit
//          ticks score = largest iteration counter of the call (kind lp)
//          term  no score; only a call that does not return within the watchdog period is reported
//   lo hi  range of magnitudes as hexadecimal bit patterns of |x| (inclusive); signs: "+", "-" or "+-"
// output:  one JSON object per selected row {"op","t","arch","mode","base","step","nl","score","lane","stuck"} and a final
//          {"summary":...} object per spec line with the number of arguments swept.
#ifndef VD_SWEEP_HPP
#define VD_SWEEP_HPP
#include "vd.hpp"
#include <cmath>
#include <csetjmp>
#include <csignal>
#include <cstdio>
#include <cstdlib>
#include <map>
#include <string>
#include <sys/time.h>
#include <unistd.h>

namespace sweep
{
    struct Ref
    {
        const char* name;
        double (*d)(double);
        long double (*ld)(long double);
        float (*f)(float);
    };
    static double d_exp10(double x) { return ::exp10(x); }
    static long double ld_exp10(long double x) { return ::exp10l(x); }
    static float f_exp10(float x) { return ::exp10f(x); }
    static double d_lgamma(double x) { int s; return ::lgamma_r(x, &s); }
    static long double ld_lgamma(long double x) { int s; return ::lgammal_r(x, &s); }
    static float f_lgamma(float x) { int s; return ::lgammaf_r(x, &s); }
#define SW_REF(n) { #n, [](double x) { return (double)::n(x); }, [](long double x) { return (long double)::n##l(x); }, [](float x) { return (float)::n##f(x); } }
    static const Ref refs[] = {
        SW_REF(exp), SW_REF(exp2), { "exp10", d_exp10, ld_exp10, f_exp10 }, SW_REF(expm1), SW_REF(log), SW_REF(log2), SW_REF(log10), SW_REF(log1p),
        SW_REF(sin), SW_REF(cos), SW_REF(tan), SW_REF(asin), SW_REF(acos), SW_REF(atan), SW_REF(sinh), SW_REF(cosh), SW_REF(tanh),
        SW_REF(asinh), SW_REF(acosh), SW_REF(atanh), SW_REF(cbrt), SW_REF(erf), SW_REF(erfc), SW_REF(tgamma), { "lgamma", d_lgamma, ld_lgamma, f_lgamma },
        SW_REF(sqrt), SW_REF(ceil), SW_REF(floor), SW_REF(trunc), SW_REF(round), SW_REF(nearbyint), SW_REF(rint), SW_REF(fabs),
    };
#undef SW_REF
    static const Ref* find_ref(const char* n)
    {
        for (auto& r : refs)
            if (!strcmp(r.name, n))
                return &r;
        return nullptr;
    }

    static sigjmp_buf jmp;
    static volatile sig_atomic_t in_chunk = 0;
    // watchdog on the CPU time of the process (a call that loops burns CPU; a process that is merely descheduled on a busy machine does not)
    static void arm(int seconds)
    {
        struct itimerval tv = { { 0, 0 }, { seconds, 0 } };
        setitimer(ITIMER_VIRTUAL, &tv, nullptr);
    }
    static void on_signal(int)
    {
        if (in_chunk)
            siglongjmp(jmp, 1);
        _exit(70);
    }

    struct Best
    {
        double score = -1;
        uint64_t base = 0, step = 0;
        int lane = 0;
        bool stuck = false;
    };

    template <class F, class U>
    inline F as_fp(U u)
    {
        F f;
        memcpy(&f, &u, sizeof f);
        return f;
    }

    // score of one lane against a reference value computed in a wider format (W = double for float, long double for double)
    template <class F, class Wd>
    inline double ulp_score(F x, F r, Wd ref, bool max1, int P, F fmin, F fmax)
    {
        (void)x;
        const double BIG = 1e30;
        if (std::isnan(ref))
            return std::isnan(r) ? 0 : BIG;
        if (std::isnan(r))
            return BIG;
        Wd m = std::fabs(ref);
        if (std::isinf(ref) || m > (Wd)fmax / 4)
        {
            // overflow zone: +-inf or a huge value of the right sign
            bool okmag = std::isinf(r) || std::fabs((Wd)r) >= (Wd)fmax / 16;
            bool oksign = std::signbit(r) == std::signbit(ref);
            return (okmag && oksign) ? 0 : BIG;
        }
        if (m < (Wd)fmin * 4)
        {
            bool okmag = std::fabs((Wd)r) <= (Wd)fmin * 16;
            bool oksign = r == 0 || ref == 0 || std::signbit(r) == std::signbit(ref);
            return (okmag && oksign) ? 0 : BIG;
        }
        if (std::isinf(r))
            return BIG;
        Wd den = m;
        if (max1 && den < 1)
            den = 1;
        int e;
        std::frexp(den, &e); // den = f * 2^e, f in [0.5, 1): ulp = 2^(e - P)
        Wd err = std::fabs((Wd)r - ref);
        return (double)std::ldexp(err, P - e);
    }

    inline bool same_fp32(float a, float b)
    {
        if (std::isnan(a) || std::isnan(b))
            return std::isnan(a) && std::isnan(b);
        return a == b;
    }

    struct Job
    {
        char kind[32], op[48], type[16], arch[64], mode[16], ref[32], signs[8];
        unsigned long long stride, seed, lo, hi;
    };

    inline uint64_t splitmix(uint64_t& s)
    {
        uint64_t z = (s += 0x9E3779B97F4A7C15ull);
        z = (z ^ (z >> 30)) * 0xBF58476D1CE4E5B9ull;
        z = (z ^ (z >> 27)) * 0x94D049BB133111EBull;
        return z ^ (z >> 31);
    }

    inline int run(int argc, char** argv)
    {
        if (argc < 6)
        {
            fprintf(stderr, "usage: vd --sweep <spec> <out> <shard> <nshards>\n");
            return 2;
        }
        FILE* in = fopen(argv[2], "r");
        FILE* out = fopen(argv[3], "w");
        int shard = atoi(argv[4]), nshards = atoi(argv[5]);
        if (!in || !out || nshards < 1)
            return 2;
        struct sigaction sa;
        memset(&sa, 0, sizeof sa);
        sa.sa_handler = on_signal;
        sa.sa_flags = SA_NODEFER;
        for (int s : { SIGSEGV, SIGBUS, SIGILL, SIGFPE, SIGALRM, SIGVTALRM, SIGABRT })
            sigaction(s, &sa, nullptr);
        auto& reg = vd::registry();
        static char line[4096];
        while (fgets(line, sizeof line, in))
        {
            Job j;
            if (line[0] == '#' || sscanf(line, "%31s %47s %15s %63s %15s %31s %llu %llu %llx %llx %7s", j.kind, j.op, j.type, j.arch, j.mode, j.ref, &j.stride, &j.seed, &j.lo, &j.hi, j.signs) != 11)
                continue;
            vd::Fn fn = nullptr;
            for (auto& t : reg)
                if (t.name == j.arch)
                    for (auto& e : t.entries)
                        if (!strcmp(e.kind, j.kind) && !strcmp(e.op, j.op) && !strcmp(e.type, j.type))
                            fn = e.fn;
            if (!fn)
                continue;
            const bool is64 = !strcmp(j.type, "f64") || !strcmp(j.type, "i64") || !strcmp(j.type, "u64");
            const bool isint = j.type[0] == 'i' || j.type[0] == 'u';
            const bool src_signed = j.type[0] == 'i';
            const std::string mode = j.mode;
            const Ref* ref = find_ref(j.ref);
            const bool want_pos = strchr(j.signs, '+') != nullptr, want_neg = strchr(j.signs, '-') != nullptr;
            // per-job state lives in static storage: it is modified between sigsetjmp and a siglongjmp out of a stuck call
            static std::map<uint32_t, Best> best; // bucket (sign + exponent) -> best row
            static unsigned long long swept, stuckrows;
            static uint64_t st, base64, step64;
            best.clear();
            swept = stuckrows = 0;
            alignas(64) static uint8_t row[vd::ROW * 4], row2[vd::ROW * 4];
            static vd::Out o, o2;
            vd::Args args, args2;
            for (int i = 0; i < 4; ++i)
            {
                args.in[i] = row;
                args2.in[i] = row2;
            }
            args.imm = args2.imm = 0;
            unsigned long* ticks = nullptr;
            (void)ticks;
            const int lanes_full = is64 ? 8 : 16;
            int nl = lanes_full; // lanes really consumed by the entry (register-granular kinds: one register)
            const uint64_t sign32 = 0x80000000ull, sign64 = 0x8000000000000000ull;

            // judge one executed row; returns (score, lane)
            auto score_row = [&](uint64_t base, uint64_t step, bool& skip) -> std::pair<double, int>
            {
                double sc = 0;
                int sl = 0;
                skip = false;
                if (mode == "term")
                    return { 0.0, 0 };
                if (mode == "ticks")
                {
                    for (int i = 0; i < 8; ++i)
                    {
                        double t = vd::ld<uint16_t>(o.bytes + vd::ROW + 2 * i);
                        if (t > sc)
                            sc = t, sl = i;
                    }
                    return { sc, sl };
                }
                for (int i = 0; i < nl; ++i)
                {
                    double s = 0;
                    if (!is64)
                    {
                        uint32_t xb = (uint32_t)(base + (uint64_t)i * step);
                        if (isint)
                        {
                            float r = vd::ld<float>(o.bytes + 4 * i);
                            float e = j.type[0] == 'i' ? (float)(int32_t)xb : (float)xb;
                            s = (mode == "cvi" && !same_fp32(r, e)) ? 1 : 0;
                        }
                        else
                        {
                            float x = as_fp<float>(xb);
                            uint32_t ex = (xb >> 23) & 0xFF;
                            bool special = ex == 0xFF || (ex == 0 && (xb & 0x7FFFFF));
                            if (mode == "ulp" || mode == "ulp1")
                            {
                                if (special)
                                    continue;
                                s = ulp_score<float, double>(x, vd::ld<float>(o.bytes + 4 * i), ref->d((double)x), mode == "ulp1", 24, 1.17549435e-38f, 3.40282347e38f);
                            }
                            else if (mode == "dom")
                                s = std::isnan(vd::ld<float>(o.bytes + 4 * i)) != std::isnan(ref->d((double)x)) ? 1 : 0;
                            else if (mode == "eq")
                                s = same_fp32(vd::ld<float>(o.bytes + 4 * i), ref->f(x)) ? 0 : 1;
                            else if (mode == "eqi")
                            {
                                if (!strcmp(j.ref, "truncu"))
                                {
                                    if (std::isnan(x) || !(x > -1.0f) || x >= 4294967296.0f)
                                        continue;
                                    s = vd::ld<uint32_t>(o.bytes + 4 * i) == (uint32_t)x ? 0 : 1;
                                }
                                else
                                {
                                    if (std::isnan(x) || std::fabs(x) >= 2147483648.0f)
                                        continue;
                                    int32_t e = !strcmp(j.ref, "trunc") ? (int32_t)x : (int32_t)lrintf(x);
                                    s = vd::ld<int32_t>(o.bytes + 4 * i) == e ? 0 : 1;
                                }
                            }
                            else if (mode == "odd" || mode == "even")
                            {
                                uint32_t a = vd::ld<uint32_t>(o.bytes + 4 * i), b = vd::ld<uint32_t>(o2.bytes + 4 * i);
                                bool an = (a & 0x7FFFFFFF) > 0x7F800000, bn = (b & 0x7FFFFFFF) > 0x7F800000;
                                if (an || bn)
                                    s = (an && bn) ? 0 : 1;
                                else
                                    s = (mode == "odd" ? (a ^ 0x80000000u) : a) == b ? 0 : 1;
                            }
                        }
                    }
                    else
                    {
                        uint64_t xb = base + (uint64_t)i * step;
                        if (isint)
                        {
                            double r = vd::ld<double>(o.bytes + 8 * i);
                            double e = src_signed ? (double)(int64_t)xb : (double)xb;
                            s = (mode == "cvi" && !(r == e)) ? 1 : 0;
                            if (s > sc)
                                sc = s, sl = i;
                            continue;
                        }
                        double x = as_fp<double>(xb);
                        if (mode == "eqi")
                        {
                            if (!strcmp(j.ref, "truncu"))
                            {
                                if (std::isnan(x) || !(x > -1.0) || x >= 18446744073709551616.0)
                                    continue;
                                s = vd::ld<uint64_t>(o.bytes + 8 * i) == (uint64_t)x ? 0 : 1;
                            }
                            else
                            {
                                if (std::isnan(x) || std::fabs(x) >= 9223372036854775808.0)
                                    continue;
                                int64_t e = !strcmp(j.ref, "trunc") ? (int64_t)x : (int64_t)llrint(x);
                                s = vd::ld<int64_t>(o.bytes + 8 * i) == e ? 0 : 1;
                            }
                            if (s > sc)
                                sc = s, sl = i;
                            continue;
                        }
                        uint64_t ex = (xb >> 52) & 0x7FF;
                        bool special = ex == 0x7FF || (ex == 0 && (xb & 0xFFFFFFFFFFFFFull));
                        if (mode == "ulp" || mode == "ulp1")
                        {
                            if (special)
                                continue;
                            s = ulp_score<double, long double>(x, vd::ld<double>(o.bytes + 8 * i), ref->ld((long double)x), mode == "ulp1", 53, 2.2250738585072014e-308, 1.7976931348623157e308);
                        }
                        else if (mode == "dom")
                            s = std::isnan(vd::ld<double>(o.bytes + 8 * i)) != std::isnan(ref->d(x)) ? 1 : 0;
                        else if (mode == "eq")
                        {
                            double r = vd::ld<double>(o.bytes + 8 * i), e = ref->d(x);
                            s = ((std::isnan(r) && std::isnan(e)) || r == e) ? 0 : 1;
                        }
                        else if (mode == "odd" || mode == "even")
                        {
                            uint64_t a = vd::ld<uint64_t>(o.bytes + 8 * i), b = vd::ld<uint64_t>(o2.bytes + 8 * i);
                            bool an = (a & ~sign64) > 0x7FF0000000000000ull, bn = (b & ~sign64) > 0x7FF0000000000000ull;
                            if (an || bn)
                                s = (an && bn) ? 0 : 1;
                            else
                                s = (mode == "odd" ? (a ^ sign64) : a) == b ? 0 : 1;
                        }
                    }
                    if (s > sc)
                        sc = s, sl = i;
                }
                return { sc, sl };
            };

            auto do_row = [&](uint64_t base, uint64_t step)
            {
                if (!is64)
                    for (int i = 0; i < lanes_full; ++i)
                        vd::st<uint32_t>(row + 4 * i, (uint32_t)(base + (uint64_t)(i % nl) * step));
                else
                    for (int i = 0; i < lanes_full; ++i)
                        vd::st<uint64_t>(row + 8 * i, base + (uint64_t)(i % nl) * step);
                fn(args, o);
                if (mode == "odd" || mode == "even")
                {
                    if (!is64)
                        for (int i = 0; i < lanes_full; ++i)
                            vd::st<uint32_t>(row2 + 4 * i, vd::ld<uint32_t>(row + 4 * i) ^ 0x80000000u);
                    else
                        for (int i = 0; i < lanes_full; ++i)
                            vd::st<uint64_t>(row2 + 8 * i, vd::ld<uint64_t>(row + 8 * i) ^ sign64);
                    fn(args2, o2);
                }
            };
            auto consider = [&](uint64_t base, uint64_t step, double sc, int lane, bool stuck)
            {
                uint32_t bucket = is64 ? (uint32_t)(base >> 52) : (uint32_t)((base & 0xFFFFFFFFull) >> 23);
                if (isint && is64)
                    bucket = (uint32_t)(base >> 63) * 64 + (uint32_t)(64 - __builtin_clzll(base | 1));   // sign and bit length
                Best& b = best[bucket];
                if (sc > b.score || (stuck && !b.stuck))
                {
                    b.score = sc;
                    b.base = base;
                    b.step = step;
                    b.lane = lane;
                    b.stuck = stuck;
                }
            };

            // determine the number of lanes the entry consumes (register-granular conversions: one register)
            {
                memset(row, 0, sizeof row);
                o.len = 0;
                fn(args, o);
                if (!strcmp(j.kind, "cv"))
                    nl = o.len / (is64 ? 8 : 4);
                if (nl < 1 || nl > lanes_full)
                    nl = lanes_full;
            }

            if (!is64)
            {
                // every stride-th 32-bit pattern: lane i of a row holds base + i*stride; chunks of 4096 rows are dealt to the shards
                const uint64_t s = j.stride ? j.stride : 1;
                const uint64_t off = j.seed % s;
                const uint64_t rowspan = (uint64_t)nl * s, chunkspan = rowspan * 4096;
                const uint64_t nchunks = ((1ull << 32) + chunkspan - 1) / chunkspan;
                for (uint64_t c = shard; c < nchunks && stuckrows < 6; c += nshards)
                {
                    uint64_t cb = c * chunkspan;
                    // skip chunks wholly outside the requested magnitude range / signs
                    volatile uint64_t r0 = 0;
                    while (r0 < 4096)
                    {
                        if (sigsetjmp(jmp, 1) != 0)
                        {
                            in_chunk = 0;
                            uint64_t base = cb + r0 * rowspan + off;
                            consider(base, s, 1e30, 0, true);
                            ++stuckrows;
                            r0 = r0 + 1;
                            // a kernel that hangs on a whole CLASS of arguments would cost a watchdog period per row: a few stuck rows say it all
                            if (stuckrows >= 6)
                                break;
                            continue;
                        }
                        in_chunk = 1;
                        arm(3);
                        for (; r0 < 4096; r0 = r0 + 1)
                        {
                            uint64_t base = cb + r0 * rowspan + off;
                            if (base >= (1ull << 32))
                                break;
                            uint64_t mag = base & 0x7FFFFFFFull;
                            bool neg = (base & sign32) != 0;
                            if (!isint && (mag + rowspan < j.lo || mag > j.hi || (neg ? !want_neg : !want_pos)))
                                continue;
                            do_row(base, s);
                            swept += nl;
                            bool skip;
                            auto sc = score_row(base, s, skip);
                            if (sc.first > 0 || mode == "ulp" || mode == "ulp1")
                                consider(base, s, sc.first, sc.second, false);
                        }
                        arm(0);
                        in_chunk = 0;
                        break;
                    }
                }
            }
            else
            {
                // seeded sample of rows of neighbouring doubles: magnitude ordinal uniform in [lo, hi] (log-uniform values), step 2^k
                st = j.seed * 1000003ull + (uint64_t)shard * 7919ull + 12345;
                const uint64_t nrows = j.stride;
                volatile uint64_t r0 = 0;
                uint64_t& base = base64;
                uint64_t& step = step64;
                base = 0;
                step = 1;
                while (r0 < nrows)
                {
                    if (sigsetjmp(jmp, 1) != 0)
                    {
                        in_chunk = 0;
                        consider(base, step, 1e30, 0, true);
                        ++stuckrows;
                        r0 = r0 + 1;
                        if (stuckrows >= 6)
                            break;
                        continue;
                    }
                    in_chunk = 1;
                    arm(3);
                    for (; r0 < nrows; r0 = r0 + 1)
                    {
                        if ((r0 & 4095) == 4095)
                            arm(3);
                        uint64_t u = splitmix(st);
                        uint64_t span = j.hi - j.lo + 1;
                        uint64_t mag = j.lo + (span ? u % span : 0);
                        uint64_t k = splitmix(st);
                        if (isint)
                        {
                            // integers of every bit length (rounding happens beyond 53 bits), both signs, rows of neighbours
                            base = u >> ((k >> 16) % 64);
                            if (src_signed && ((k >> 5) & 1))
                                base = (uint64_t)(-(int64_t)base);
                            step = 1ull << ((k & 3) == 0 ? 0 : (k >> 8) % 12);
                            do_row(base, step);
                            swept += nl;
                            bool skip0;
                            auto sc0 = score_row(base, step, skip0);
                            if (sc0.first > 0)
                                consider(base, step, sc0.first, sc0.second, false);
                            continue;
                        }
                        step = 1ull << ((k & 3) == 0 ? 0 : (k >> 8) % 40);
                        bool neg = want_neg && (!want_pos || ((k >> 4) & 1));
                        if (mag + 8 * step > 0x7FEFFFFFFFFFFFFFull)
                            mag = 0x7FEFFFFFFFFFFFFFull - 8 * step;
                        base = mag | (neg ? sign64 : 0);
                        do_row(base, step);
                        swept += nl;
                        bool skip;
                        auto sc = score_row(base, step, skip);
                        if (sc.first > 0 || mode == "ulp" || mode == "ulp1")
                            consider(base, step, sc.first, sc.second, false);
                    }
                    arm(0);
                    in_chunk = 0;
                    break;
                }
            }
            for (auto& kv : best)
                fprintf(out, "{\"bucket\":%u,\"op\":\"%s\",\"t\":\"%s\",\"kind\":\"%s\",\"arch\":\"%s\",\"mode\":\"%s\",\"base\":\"%llx\",\"step\":\"%llx\",\"nl\":%d,\"score\":%.6g,\"lane\":%d,\"stuck\":%d}\n",
                        kv.first, j.op, j.type, j.kind, j.arch, j.mode, (unsigned long long)kv.second.base, (unsigned long long)kv.second.step, nl, kv.second.score > 1e29 ? 1e30 : kv.second.score, kv.second.lane, kv.second.stuck ? 1 : 0);
            fprintf(out, "{\"summary\":1,\"op\":\"%s\",\"t\":\"%s\",\"kind\":\"%s\",\"arch\":\"%s\",\"mode\":\"%s\",\"swept\":%llu,\"stuck\":%llu}\n", j.op, j.type, j.kind, j.arch, j.mode, swept, stuckrows);
            fflush(out);
        }
        fclose(out);
        return 0;
    }
}
#endif
