// archdump: prints, as ndjson, the compile-time geometry of every architecture of the build (property C20).
// Records only; spec/T_Geometry.tla checks the invariants on the dumped table.
#include <cstdio>
#include <string>
#include <type_traits>
#include <xsimd/xsimd.hpp>

using namespace xsimd;

template <class A> struct nm;
#define NM(T, s) template <> struct nm<T> { static const char* get() { return s; } };
NM(sse2, "sse2") NM(sse3, "sse3") NM(ssse3, "ssse3") NM(sse4_1, "sse4_1") NM(sse4_2, "sse4_2") NM(fma3<sse4_2>, "fma3<sse4_2>") NM(fma4, "fma4")
NM(avx, "avx") NM(fma3<avx>, "fma3<avx>") NM(avx2, "avx2") NM(avxvnni, "avxvnni") NM(fma3<avx2>, "fma3<avx2>") NM(avx512f, "avx512f")
NM(avx512cd, "avx512cd") NM(avx512dq, "avx512dq") NM(avx512bw, "avx512bw") NM(avx512er, "avx512er") NM(avx512pf, "avx512pf")
NM(avx512ifma, "avx512ifma") NM(avx512vbmi, "avx512vbmi") NM(avx512vbmi2, "avx512vbmi2") NM(avx512vnni<avx512bw>, "avx512vnni<avx512bw>")
NM(avx512vnni<avx512vbmi2>, "avx512vnni<avx512vbmi2>")
#if XSIMD_WITH_EMULATED
NM(emulated<128>, "emulated<128>") NM(emulated<256>, "emulated<256>") NM(emulated<512>, "emulated<512>")
using dump_list = arch_list<emulated<128>, emulated<256>, emulated<512>>;
#else
using dump_list = all_x86_architectures;
#endif

template <class L> struct len;
template <class... As> struct len<arch_list<As...>> { static constexpr int value = sizeof...(As); };
template <class A, class L> struct index_of;
template <class A> struct index_of<A, arch_list<>> { static constexpr int value = 0; }; // 0 = absent
template <class A, class B, class... Bs>
struct index_of<A, arch_list<B, Bs...>>
{
    static constexpr int rest = index_of<A, arch_list<Bs...>>::value;
    static constexpr int value = std::is_same<A, B>::value ? 1 : (rest == 0 ? 0 : rest + 1);
};

template <class T> struct tname;
#define TNM(T, s) template <> struct tname<T> { static const char* get() { return s; } };
TNM(int8_t, "i8") TNM(uint8_t, "u8") TNM(int16_t, "i16") TNM(uint16_t, "u16") TNM(int32_t, "i32") TNM(uint32_t, "u32")
TNM(int64_t, "i64") TNM(uint64_t, "u64") TNM(float, "f32") TNM(double, "f64")

template <class T> struct sz { static constexpr int value = (int)sizeof(T); };
template <> struct sz<void> { static constexpr int value = 0; };

template <class A, class T>
void dump_type_real(std::true_type)
{
    using B = batch<T, A>;
    using BB = batch_bool<T, A>;
    printf("{\"k\":\"geom\",\"arch\":\"%s\",\"t\":\"%s\",\"tb\":%d,\"size\":%d,\"bsize\":%d,\"sizeof_batch\":%d,\"sizeof_reg\":%d,\"batch_align\":%d,"
           "\"is_batch\":%d,\"scalar_bytes\":%d,\"mask_lanes\":%d,\"sret_lanes\":%d,\"sret_bytes\":%d",
           nm<A>::get(), tname<T>::get(), (int)sizeof(T), (int)B::size, (int)BB::size, (int)sizeof(B), (int)sizeof(typename B::register_type), (int)alignof(B),
           (int)is_batch<B>::value, (int)sizeof(scalar_type_t<B>), (int)mask_type_t<B>::size,
           (int)simd_return_type<T, T, A>::size, (int)sizeof(typename simd_return_type<T, T, A>::value_type));
    printf(",\"as_int_bytes\":%d,\"as_int_lanes\":%d,\"as_uint_bytes\":%d", (int)sizeof(typename as_integer_t<B>::value_type), (int)as_integer_t<B>::size,
           (int)sizeof(typename as_unsigned_integer_t<B>::value_type));
    printf("}\n");
}
template <class A, class T>
void dump_type_real(std::false_type)
{
}
template <class A, class T>
void dump_float_real(std::true_type)
{
    using B = batch<T, A>;
    using C = batch<std::complex<T>, A>;
    printf("{\"k\":\"fgeom\",\"arch\":\"%s\",\"t\":\"%s\",\"tb\":%d,\"size\":%d,\"csize\":%d,\"creal_lanes\":%d,\"as_float_bytes\":%d,\"as_float_lanes\":%d,\"int_as_float_bytes\":%d}\n",
           nm<A>::get(), tname<T>::get(), (int)sizeof(T), (int)B::size, (int)C::size, (int)C::real_batch::size, (int)sizeof(typename as_float_t<as_integer_t<B>>::value_type),
           (int)as_float_t<as_integer_t<B>>::size, (int)sizeof(typename as_float_t<as_integer_t<B>>::value_type));
}
template <class A, class T>
void dump_float_real(std::false_type)
{
}

template <class A>
struct base_printer
{
    template <class B>
    void operator()(B) const
    {
        if (std::is_base_of<B, A>::value && !std::is_same<A, B>::value)
            printf("%s\"%s\"", first ? "" : ",", nm<B>::get());
        if (std::is_base_of<B, A>::value && !std::is_same<A, B>::value)
            first = false;
    }
    mutable bool first = true;
};

struct arch_dumper
{
    template <class A>
    void operator()(A) const
    {
        printf("{\"k\":\"arch\",\"name\":\"%s\",\"idx\":%d,\"supported\":%d,\"available\":%d,\"spos\":%d,\"alignment\":%d,\"requires_alignment\":%d,\"bases\":[",
               nm<A>::get(), index_of<A, dump_list>::value, (int)A::supported(), (int)A::available(), index_of<A, supported_architectures>::value,
               (int)A::alignment(), (int)A::requires_alignment());
        dump_list::for_each(base_printer<A> {});
        printf("]}\n");
        using sup = std::integral_constant<bool, A::supported()>;
        dump_type_real<A, int8_t>(sup {});
        dump_type_real<A, uint8_t>(sup {});
        dump_type_real<A, int16_t>(sup {});
        dump_type_real<A, uint16_t>(sup {});
        dump_type_real<A, int32_t>(sup {});
        dump_type_real<A, uint32_t>(sup {});
        dump_type_real<A, int64_t>(sup {});
        dump_type_real<A, uint64_t>(sup {});
        dump_type_real<A, float>(sup {});
        dump_type_real<A, double>(sup {});
        dump_float_real<A, float>(sup {});
        dump_float_real<A, double>(sup {});
    }
};

template <class T, size_t N>
void dump_sized()
{
    using R = make_sized_batch_t<T, N>;
    struct H
    {
        static int lanes(std::true_type) { return 0; }
        static int lanes(std::false_type) { return -1; }
    };
    constexpr bool isvoid = std::is_void<R>::value;
    int lanes = 0, bytes = 0;
    // size of a void type cannot be named: go through a conditional
    using RR = typename std::conditional<isvoid, batch<T>, R>::type;
    if (!isvoid)
    {
        lanes = (int)RR::size;
        bytes = (int)sizeof(typename RR::value_type);
    }
    printf("{\"k\":\"sized\",\"t\":\"%s\",\"tb\":%d,\"N\":%d,\"void\":%d,\"lanes\":%d,\"elt_bytes\":%d}\n", tname<T>::get(), (int)sizeof(T), (int)N, (int)isvoid, lanes, bytes);
}
template <class T>
void dump_sized_all()
{
    dump_sized<T, 1>();
    dump_sized<T, 2>();
    dump_sized<T, 3>();
    dump_sized<T, 4>();
    dump_sized<T, 8>();
    dump_sized<T, 16>();
    dump_sized<T, 32>();
    dump_sized<T, 64>();
    dump_sized<T, 128>();
}

struct name_printer
{
    template <class A>
    void operator()(A) const
    {
        printf("%s\"%s\"", first ? "" : ",", nm<A>::get());
        first = false;
    }
    mutable bool first = true;
};

template <class L>
void dump_list_rec(const char* name)
{
    printf("{\"k\":\"list\",\"name\":\"%s\",\"archs\":[", name);
    L::for_each(name_printer {});
    printf("],\"alignment\":%d,\"best\":\"%s\"}\n", (int)L::alignment(), nm<typename L::best>::get());
}

int main()
{
    dump_list::for_each(arch_dumper {});
#if !XSIMD_WITH_EMULATED
    dump_list_rec<all_x86_architectures>("all_x86");
    dump_list_rec<supported_architectures>("supported");
    dump_list_rec<arch_list<sse2, avx512f, avx2>>("custom1");
    dump_list_rec<arch_list<sse4_2, sse2>>("custom2");
    dump_list_rec<arch_list<avx, sse3>>("custom3");
    // every order of three different alignments (the maximum first, in the middle, last) and a longer unordered list
    dump_list_rec<arch_list<sse2, avx, avx512f>>("perm_abc");
    dump_list_rec<arch_list<sse2, avx512f, avx>>("perm_acb");
    dump_list_rec<arch_list<avx, sse2, avx512f>>("perm_bac");
    dump_list_rec<arch_list<avx, avx512f, sse2>>("perm_bca");
    dump_list_rec<arch_list<avx512f, sse2, avx>>("perm_cab");
    dump_list_rec<arch_list<avx512f, avx, sse2>>("perm_cba");
    dump_list_rec<arch_list<avx2, sse4_2, sse2, avx, ssse3, avx512bw, sse3>>("unordered7");
    dump_list_rec<arch_list<avx512f>>("single");
    printf("{\"k\":\"defaults\",\"best_arch\":\"%s\",\"default_arch\":\"%s\",\"x86_arch\":\"%s\"}\n", nm<best_arch>::get(), nm<default_arch>::get(), nm<x86_arch>::get());
    dump_sized_all<int8_t>();
    dump_sized_all<uint8_t>();
    dump_sized_all<int16_t>();
    dump_sized_all<uint16_t>();
    dump_sized_all<int32_t>();
    dump_sized_all<uint32_t>();
    dump_sized_all<int64_t>();
    dump_sized_all<uint64_t>();
    dump_sized_all<float>();
    dump_sized_all<double>();
#endif
    return 0;
}
