// Row-level wrappers: W<A,T> drives batch<T,A> over a 64-byte row chunk by chunk; WS<T> drives the
// scalar overloads of xsimd_scalar.hpp lane by lane (pseudo-architecture "scalar", property C17).
#ifndef VD_WRAP_HPP
#define VD_WRAP_HPP
#include "vd.hpp"
#include <xsimd/xsimd.hpp>
#include <type_traits>

namespace vd
{
    template <class A, class T>
    struct W
    {
        using value_type = T;
        using arch = A;
        using B = xsimd::batch<T, A>;
        using BB = xsimd::batch_bool<T, A>;
        static constexpr bool is_scalar = false;
        static constexpr int N = B::size;
        static constexpr int RB = N * sizeof(T);
        static constexpr int CH = ROW / RB;

        static B load(const uint8_t* p) { return B::load_unaligned(reinterpret_cast<const T*>(p)); }
        static void store(uint8_t* p, B const& b) { b.store_unaligned(reinterpret_cast<T*>(p)); }
        // mask row: lane i true iff any byte of lane i is non-zero
        static BB loadmask(const uint8_t* p)
        {
            bool tmp[N];
            for (int i = 0; i < N; ++i)
            {
                bool t = false;
                for (size_t k = 0; k < sizeof(T); ++k)
                    t = t || p[i * sizeof(T) + k] != 0;
                tmp[i] = t;
            }
            return BB::load_unaligned(tmp);
        }
        static void storemask(uint8_t* p, BB const& m) // one byte 0/1 per lane
        {
            bool tmp[N];
            m.store_unaligned(tmp);
            for (int i = 0; i < N; ++i)
                p[i] = tmp[i] ? 1 : 0;
        }
        template <class F>
        static void ew1(const Args& a, Out& o, F f)
        {
            for (int c = 0; c < CH; ++c)
                store(o.bytes + c * RB, f(load(a.in[0] + c * RB)));
            o.len = ROW;
        }
        template <class F>
        static void ew2(const Args& a, Out& o, F f)
        {
            for (int c = 0; c < CH; ++c)
                store(o.bytes + c * RB, f(load(a.in[0] + c * RB), load(a.in[1] + c * RB)));
            o.len = ROW;
        }
        template <class F>
        static void ew3(const Args& a, Out& o, F f)
        {
            for (int c = 0; c < CH; ++c)
                store(o.bytes + c * RB, f(load(a.in[0] + c * RB), load(a.in[1] + c * RB), load(a.in[2] + c * RB)));
            o.len = ROW;
        }
        template <class F, class G>
        static void ew2x2(const Args& a, Out& o, F f, G g) // two results: row f(x,y) followed by row g(x,y)
        {
            for (int c = 0; c < CH; ++c)
            {
                store(o.bytes + c * RB, f(load(a.in[0] + c * RB), load(a.in[1] + c * RB)));
                store(o.bytes + ROW + c * RB, g(load(a.in[0] + c * RB), load(a.in[1] + c * RB)));
            }
            o.len = 2 * ROW;
        }
        template <class F>
        static void ewi(const Args& a, Out& o, F f) // (x, imm)
        {
            for (int c = 0; c < CH; ++c)
                store(o.bytes + c * RB, f(load(a.in[0] + c * RB), a.imm));
            o.len = ROW;
        }
        template <class F>
        static void ewm(const Args& a, Out& o, F f) // (x, mask from row 1)
        {
            for (int c = 0; c < CH; ++c)
                store(o.bytes + c * RB, f(load(a.in[0] + c * RB), loadmask(a.in[1] + c * RB)));
            o.len = ROW;
        }
        template <class F>
        static void ewm3(const Args& a, Out& o, F f) // (mask from row 0, x, y)
        {
            for (int c = 0; c < CH; ++c)
                store(o.bytes + c * RB, f(loadmask(a.in[0] + c * RB), load(a.in[1] + c * RB), load(a.in[2] + c * RB)));
            o.len = ROW;
        }
        template <class F>
        static void cmp1(const Args& a, Out& o, F f) // -> one byte per lane
        {
            for (int c = 0; c < CH; ++c)
                storemask(o.bytes + c * N, f(load(a.in[0] + c * RB)));
            o.len = ROW / sizeof(T);
        }
        template <class F>
        static void cmp2(const Args& a, Out& o, F f)
        {
            for (int c = 0; c < CH; ++c)
                storemask(o.bytes + c * N, f(load(a.in[0] + c * RB), load(a.in[1] + c * RB)));
            o.len = ROW / sizeof(T);
        }
    };

    // register-granular Boolean helpers (family "bool", property C03): one register, N lanes, masks as N bytes 0/1.
    // SRC selects how the batch_bool is manufactured: 0 = bool[] load, 1 = from_mask, 2 = result of a comparison.
    template <class A, class T, int SRC>
    struct WB : W<A, T>
    {
        using base = W<A, T>;
        using B = typename base::B;
        using BB = typename base::BB;
        static constexpr int N = base::N;
        static BB mk(const uint8_t* p)
        {
            if (SRC == 0)
            {
                bool tmp[N];
                for (int i = 0; i < N; ++i)
                    tmp[i] = p[i] != 0;
                return BB::load_unaligned(tmp);
            }
            else if (SRC == 1)
            {
                uint64_t m = 0;
                for (int i = 0; i < N; ++i)
                    m |= (uint64_t)(p[i] != 0) << i;
                return BB::from_mask(m);
            }
            else
            {
                alignas(64) T tmp[N];
                for (int i = 0; i < N; ++i)
                    tmp[i] = p[i] ? T(1) : T(0);
                return B::load_aligned(tmp) != B(T(0));
            }
        }
        template <class F>
        static void bb1(const Args& a, Out& o, F f)
        {
            base::storemask(o.bytes, f(mk(a.in[0])));
            o.len = N;
        }
        template <class F>
        static void bb2(const Args& a, Out& o, F f)
        {
            base::storemask(o.bytes, f(mk(a.in[0]), mk(a.in[1])));
            o.len = N;
        }
        template <class F>
        static void bbq(const Args& a, Out& o, F f) // scalar query -> 8 bytes little endian
        {
            uint64_t v = (uint64_t)f(mk(a.in[0]));
            st<uint64_t>(o.bytes, v);
            o.len = 8;
        }
    };

    struct scalar_arch
    {
    };

    template <class T>
    struct WS
    {
        using value_type = T;
        using arch = scalar_arch;
        static constexpr bool is_scalar = true;
        static constexpr int N = 1;
        static constexpr int RB = sizeof(T);
        static constexpr int CH = ROW / RB;
        static bool mk(const uint8_t* p)
        {
            bool t = false;
            for (size_t k = 0; k < sizeof(T); ++k)
                t = t || p[k] != 0;
            return t;
        }
        template <class F>
        static void ew1(const Args& a, Out& o, F f)
        {
            for (int c = 0; c < CH; ++c)
                st<T>(o.bytes + c * RB, static_cast<T>(f(ld<T>(a.in[0] + c * RB))));
            o.len = ROW;
        }
        template <class F>
        static void ew2(const Args& a, Out& o, F f)
        {
            for (int c = 0; c < CH; ++c)
                st<T>(o.bytes + c * RB, static_cast<T>(f(ld<T>(a.in[0] + c * RB), ld<T>(a.in[1] + c * RB))));
            o.len = ROW;
        }
        template <class F>
        static void ew3(const Args& a, Out& o, F f)
        {
            for (int c = 0; c < CH; ++c)
                st<T>(o.bytes + c * RB, static_cast<T>(f(ld<T>(a.in[0] + c * RB), ld<T>(a.in[1] + c * RB), ld<T>(a.in[2] + c * RB))));
            o.len = ROW;
        }
        template <class F, class G>
        static void ew2x2(const Args& a, Out& o, F f, G g)
        {
            for (int c = 0; c < CH; ++c)
            {
                st<T>(o.bytes + c * RB, static_cast<T>(f(ld<T>(a.in[0] + c * RB), ld<T>(a.in[1] + c * RB))));
                st<T>(o.bytes + ROW + c * RB, static_cast<T>(g(ld<T>(a.in[0] + c * RB), ld<T>(a.in[1] + c * RB))));
            }
            o.len = 2 * ROW;
        }
        template <class F>
        static void ewi(const Args& a, Out& o, F f)
        {
            for (int c = 0; c < CH; ++c)
                st<T>(o.bytes + c * RB, static_cast<T>(f(ld<T>(a.in[0] + c * RB), a.imm)));
            o.len = ROW;
        }
        template <class F>
        static void ewm(const Args& a, Out& o, F f)
        {
            for (int c = 0; c < CH; ++c)
                st<T>(o.bytes + c * RB, static_cast<T>(f(ld<T>(a.in[0] + c * RB), mk(a.in[1] + c * RB))));
            o.len = ROW;
        }
        template <class F>
        static void ewm3(const Args& a, Out& o, F f)
        {
            for (int c = 0; c < CH; ++c)
                st<T>(o.bytes + c * RB, static_cast<T>(f(mk(a.in[0] + c * RB), ld<T>(a.in[1] + c * RB), ld<T>(a.in[2] + c * RB))));
            o.len = ROW;
        }
        template <class F>
        static void cmp1(const Args& a, Out& o, F f)
        {
            for (int c = 0; c < CH; ++c)
                o.bytes[c] = f(ld<T>(a.in[0] + c * RB)) ? 1 : 0;
            o.len = CH;
        }
        template <class F>
        static void cmp2(const Args& a, Out& o, F f)
        {
            for (int c = 0; c < CH; ++c)
                o.bytes[c] = f(ld<T>(a.in[0] + c * RB), ld<T>(a.in[1] + c * RB)) ? 1 : 0;
            o.len = CH;
        }
    };
}

#define VD_E(KIND, NAME, ...)                                                                        \
    tab.entries.push_back({ KIND, NAME, vd::TN<T>::name(), +[](const vd::Args& a, vd::Out& o) { __VA_ARGS__; } });
#define VD_EW1(NAME, EXPR) VD_E("ew", NAME, WT::ew1(a, o, [](auto x) { return EXPR; }))
#define VD_EW2(NAME, EXPR) VD_E("ew", NAME, WT::ew2(a, o, [](auto x, auto y) { return EXPR; }))
#define VD_EW3(NAME, EXPR) VD_E("ew", NAME, WT::ew3(a, o, [](auto x, auto y, auto z) { return EXPR; }))
#define VD_EW2X2(NAME, E1, E2) VD_E("ew2", NAME, WT::ew2x2(a, o, [](auto x, auto y) { return E1; }, [](auto x, auto y) { return E2; }))
#define VD_EWI(NAME, EXPR) VD_E("ewi", NAME, WT::ewi(a, o, [](auto x, long n) { return EXPR; }))
#define VD_EWM(NAME, EXPR) VD_E("ewm", NAME, WT::ewm(a, o, [](auto x, auto m) { return EXPR; }))
#define VD_SEL(NAME, EXPR) VD_E("sel", NAME, WT::ewm3(a, o, [](auto m, auto x, auto y) { return EXPR; }))
#define VD_CMP1(NAME, EXPR) VD_E("cmp", NAME, WT::cmp1(a, o, [](auto x) { return EXPR; }))
#define VD_CMP2(NAME, EXPR) VD_E("cmp", NAME, WT::cmp2(a, o, [](auto x, auto y) { return EXPR; }))
#define VD_BB1(NAME, EXPR) VD_E("bb", NAME, WBT::bb1(a, o, [](auto p) { return EXPR; }))
#define VD_BB2(NAME, EXPR) VD_E("bb", NAME, WBT::bb2(a, o, [](auto p, auto q) { return EXPR; }))
#define VD_BBQ(NAME, EXPR) VD_E("bb", NAME, WBT::bbq(a, o, [](auto p) { return EXPR; }))
#endif
