// vdrive: executes a plan (one operation per line) on every registered architecture and writes one
// ndjson event per distinct observed result.  Plan line:
//     <kind> <op> <type> <imm> <hexA|-> <hexB|-> <hexC|-> <hexD|->
// Event: {"id":line,"k":kind,"op":op,"t":type,"imm":n,"a":[bytes],...,"r":[bytes],"w":regbytes|0,"archs":[...]}
// "w" is present (non-zero) only for register-granular kinds, where the result depends on the register width.
#include "vd.hpp"
#include "sweep.hpp"
#include <csetjmp>
#include <csignal>
#include <cstdio>
#include <cstdlib>
#include <map>
#include <sys/time.h>
#include <unistd.h>

namespace vd
{
    std::vector<ArchTable>& registry()
    {
        static std::vector<ArchTable> r;
        return r;
    }
}

static sigjmp_buf g_jmp;
static volatile sig_atomic_t g_in_call = 0;
static volatile sig_atomic_t g_sig = 0;
static void on_signal(int s)
{
    if (g_in_call)
    {
        g_sig = s == SIGVTALRM ? SIGALRM : s;          // the watchdog (reported as signal 14, as ever)
        siglongjmp(g_jmp, 1);
    }
    _exit(70);
}

static int hexval(char c) { return c <= '9' ? c - '0' : (c | 32) - 'a' + 10; }
static int parse_hex(const char* s, uint8_t* out, int cap)
{
    int n = 0;
    while (s[0] && s[1] && n < cap)
    {
        out[n++] = (uint8_t)(hexval(s[0]) * 16 + hexval(s[1]));
        s += 2;
    }
    return n;
}
static void put_bytes(std::string& js, const char* key, const uint8_t* p, int n)
{
    js += ",\"";
    js += key;
    js += "\":[";
    char buf[8];
    for (int i = 0; i < n; ++i)
    {
        snprintf(buf, sizeof buf, i ? ",%d" : "%d", p[i]);
        js += buf;
    }
    js += "]";
}

// kinds whose result depends on the register width (events are grouped per width)
static bool reg_granular(const std::string& k)
{
    return !(k == "ew" || k == "ew2" || k == "ewi" || k == "ewm" || k == "sel" || k == "cmp" || k == "cvt" || k == "m1" || k == "m2" || k == "m1x2" || k == "m1i" || k == "cx1" || k == "cxr" || k == "cx2" || k == "cx3" || k == "cx1s" || k == "cxp" || k == "cxq" || k == "cxc" || k == "prog");
}

int main(int argc, char** argv)
{
    if (argc >= 2 && std::string(argv[1]) == "--list")
    {
        for (auto& t : vd::registry())
            for (auto& e : t.entries)
                printf("%s %d %s %s %s\n", t.name.c_str(), t.regbytes, e.kind, e.op, e.type);
        return 0;
    }
    if (argc >= 2 && std::string(argv[1]) == "--sweep")
        return sweep::run(argc, argv);
    FILE* in = argc >= 2 ? fopen(argv[1], "r") : stdin;
    FILE* out = argc >= 3 ? fopen(argv[2], "w") : stdout;
    long watchdog_ms = argc >= 4 ? atol(argv[3]) : 0;
    if (!in || !out)
    {
        fprintf(stderr, "vdrive: cannot open files\n");
        return 2;
    }
    struct sigaction sa;
    memset(&sa, 0, sizeof sa);
    sa.sa_handler = on_signal;
    sa.sa_flags = SA_NODEFER;
    for (int s : { SIGSEGV, SIGBUS, SIGILL, SIGFPE, SIGALRM, SIGVTALRM, SIGABRT })
        sigaction(s, &sa, nullptr);

    // index: (kind,op,type) -> list of (arch index, fn); VD_ONLY=<arch>,<arch> restricts the run to some architectures
    std::map<std::string, std::vector<std::pair<int, vd::Fn>>> index;
    auto& reg = vd::registry();
    std::string only = getenv("VD_ONLY") ? std::string(",") + getenv("VD_ONLY") + "," : std::string();
    for (size_t ai = 0; ai < reg.size(); ++ai)
        for (auto& e : reg[ai].entries)
            if (only.empty() || only.find("," + reg[ai].name + ",") != std::string::npos)
            index[std::string(e.kind) + " " + e.op + " " + e.type].push_back({ (int)ai, e.fn });

    static char line[1 << 16];
    alignas(64) static uint8_t rows[4][vd::ROW * 4];
    long lineno = 0, nevents = 0;
    while (fgets(line, sizeof line, in))
    {
        ++lineno;
        char kind[32], op[48], type[32], h[4][600];
        long imm;
        int nf = sscanf(line, "%31s %47s %31s %ld %599s %599s %599s %599s", kind, op, type, &imm, h[0], h[1], h[2], h[3]);
        if (nf < 4 || kind[0] == '#')
            continue;
        int nin[4] = { 0, 0, 0, 0 };
        vd::Args args;
        args.imm = imm;
        for (int i = 0; i < 4; ++i)
        {
            memset(rows[i], 0, sizeof rows[i]);
            if (i + 5 <= nf && h[i][0] != '-')
                nin[i] = parse_hex(h[i], rows[i], sizeof rows[i]);
            args.in[i] = rows[i];
        }
        auto it = index.find(std::string(kind) + " " + op + " " + type);
        if (it == index.end())
            continue;
        bool rg = reg_granular(kind);
        // an (operation, type) that already timed out several times is not run again: every further line would cost a
        // watchdog period per architecture; the timeouts already recorded are rejections in their own right
        static std::map<std::string, int> timeouts;
        std::string tkey = std::string(op) + " " + type;
        if (timeouts[tkey] >= 3)
            continue;
        // group architectures by (width if register-granular, result bytes)
        std::map<std::string, std::vector<int>> groups;
        std::vector<std::string> order;
        for (auto& pr : it->second)
        {
            // "bb" plan lines may be addressed to one register width (imm = register bytes, 0 = every width)
            if (((kind[0] == 'b' && kind[1] == 'b') || (kind[0] == 'p' && kind[1] == 'm' && strcmp(op, "extract_pair") != 0)) && imm != 0 && reg[pr.first].regbytes != imm)
                continue;
            // memory-family lines carry the register width they are meant for in the first byte of operand row 3
            if (nin[3] > 0 && rows[3][0] != 0 && reg[pr.first].regbytes != rows[3][0])
                continue;
            static vd::Out o;
            o.len = 0;
            std::string key;
            g_sig = 0;
            if (sigsetjmp(g_jmp, 1) == 0)
            {
                g_in_call = 1;
                if (watchdog_ms > 0)
                {
                    // CPU time of the process, not wall time: a call that loops burns CPU, a process that is merely descheduled on a busy
                    // machine does not - a watchdog must never report a call that would have returned
                    struct itimerval tv = { { 0, 0 }, { watchdog_ms / 1000, (watchdog_ms % 1000) * 1000 } };
                    setitimer(ITIMER_VIRTUAL, &tv, nullptr);
                }
                pr.second(args, o);
                if (watchdog_ms > 0)
                {
                    struct itimerval tv = { { 0, 0 }, { 0, 0 } };
                    setitimer(ITIMER_VIRTUAL, &tv, nullptr);
                }
                g_in_call = 0;
                key = rg ? std::to_string(reg[pr.first].regbytes) + ":" : std::string("0:");
                key.append((const char*)o.bytes, o.len);
            }
            else
            {
                g_in_call = 0;
                if (g_sig == SIGALRM && ++timeouts[tkey] >= 3)
                {
                    key = std::string("F") + std::to_string((int)g_sig) + ":" + std::to_string(reg[pr.first].regbytes);
                    if (!groups.count(key))
                        order.push_back(key);
                    groups[key].push_back(pr.first);
                    break;
                }
                key = std::string("F") + std::to_string((int)g_sig) + ":" + std::to_string(reg[pr.first].regbytes);
            }
            if (!groups.count(key))
                order.push_back(key);
            groups[key].push_back(pr.first);
        }
        for (auto& key : order)
        {
            std::string js = "{\"id\":" + std::to_string(lineno) + ",\"k\":\"";
            bool fault = key[0] == 'F';
            js += fault ? "fault" : kind;
            js += "\",\"op\":\"";
            js += op;
            js += "\",\"t\":\"";
            js += type;
            js += "\",\"imm\":" + std::to_string(imm);
            if (fault)
            {
                js += ",\"fk\":\"";
                js += kind;
                js += "\",\"sig\":" + key.substr(1, key.find(':') - 1);
            }
            static const char* names[4] = { "a", "b", "c", "d" };
            for (int i = 0; i < 4; ++i)
                if (nin[i] > 0)
                    put_bytes(js, names[i], rows[i], nin[i]);
            size_t colon = key.find(':');
            if (!fault)
            {
                js += ",\"w\":" + key.substr(0, colon);
                put_bytes(js, "r", (const uint8_t*)key.data() + colon + 1, (int)(key.size() - colon - 1));
            }
            js += ",\"archs\":[";
            bool first = true;
            for (int ai : groups[key])
            {
                if (!first)
                    js += ",";
                first = false;
                js += "\"" + reg[ai].name + "\"";
            }
            js += "]}\n";
            fputs(js.c_str(), out);
            ++nevents;
        }
    }
    fclose(out);
    fprintf(stderr, "vdrive: %ld plan lines, %ld events\n", lineno, nevents);
    return 0;
}
