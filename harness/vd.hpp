// Conformance harness core: a registry of thin wrappers around public xsimd entry points.
// The harness never judges a result: it executes plan lines on every registered architecture
// and writes one ndjson event per distinct observed result; TLC decides (spec/T_*.tla).
#ifndef VD_HPP
#define VD_HPP
#include <cstdint>
#include <cstring>
#include <string>
#include <vector>

namespace vd
{
    constexpr int ROW = 64; // one 512-bit register worth of bytes: the unit of element-wise data

    struct Args
    {
        const uint8_t* in[4]; // up to four 64-byte operand rows
        long imm;             // scalar count / index / immediate
    };
    struct Out
    {
        uint8_t bytes[8192];
        int len;
    };
    using Fn = void (*)(const Args&, Out&);

    struct Entry
    {
        const char* kind; // event family ("ew", "cmp", "red", ...)
        const char* op;
        const char* type;
        Fn fn;
    };
    struct ArchTable
    {
        std::string name;
        int regbytes; // register width in bytes (scalar pseudo-architecture: 0)
        std::vector<Entry> entries;
    };
    std::vector<ArchTable>& registry();

    template <class T>
    struct TN;
#define VD_TN(T, s)                              \
    template <>                                  \
    struct TN<T>                                 \
    {                                            \
        static const char* name() { return s; } \
    };
    VD_TN(int8_t, "i8")
    VD_TN(uint8_t, "u8")
    VD_TN(int16_t, "i16")
    VD_TN(uint16_t, "u16")
    VD_TN(int32_t, "i32")
    VD_TN(uint32_t, "u32")
    VD_TN(int64_t, "i64")
    VD_TN(uint64_t, "u64")
    VD_TN(float, "f32")
    VD_TN(double, "f64")
#undef VD_TN

    template <class T>
    inline T ld(const uint8_t* p)
    {
        T v;
        std::memcpy(&v, p, sizeof(T));
        return v;
    }
    template <class T>
    inline void st(uint8_t* p, T v)
    {
        std::memcpy(p, &v, sizeof(T));
    }
}
#endif
