// One translation unit per (family, architecture):  -DVD_FAM='"fam_int.inc"' -DVD_ARCH='xsimd::sse2'
// -DVD_ARCH_NAME='"sse2"'   (or -DVD_SCALAR for the scalar pseudo-architecture).
#include "wrap.hpp"
#include VD_FAM

namespace
{
    struct Registrar
    {
        Registrar()
        {
            vd::ArchTable tab;
#ifdef VD_SCALAR
            tab.name = "scalar";
            tab.regbytes = 0;
            reg_family_scalar(tab);
#else
            tab.name = VD_ARCH_NAME;
            tab.regbytes = (int)sizeof(typename xsimd::batch<uint8_t, VD_ARCH>::register_type);
            reg_family<VD_ARCH>(tab);
#endif
            vd::registry().push_back(std::move(tab));
        }
    } registrar_instance;
}
