// Pseudo-architecture "detector": run-time availability under an injected CPUID/XGETBV source, the detection
// cache, and dispatch over generated architecture sub-lists (property C15).  Needs the XSIMD_VERIF hook.
#include "vd.hpp"
#include <xsimd/xsimd.hpp>

namespace
{
    // configuration presented by the injected source
    struct Cfg
    {
        uint32_t bits; // feature bits in the order of spec/Cpuid.tla FeatureNames
        bool osxsave, x1, x2, x567, noise;
    };
    Cfg g_cfg;
    // FeatureNames: sse2 sse3 ssse3 sse4_1 sse4_2 fma avx fma4 avx2 avxvnni f cd dq bw er pf ifma vbmi vbmi2 vnni
    struct Pos
    {
        int leaf, sub, reg, bit;
    };
    const Pos kPos[20] = {
        { 1, 0, 3, 26 }, { 1, 0, 2, 0 }, { 1, 0, 2, 9 }, { 1, 0, 2, 19 }, { 1, 0, 2, 20 }, { 1, 0, 2, 12 }, { 1, 0, 2, 28 },
        { (int)0x80000001, 0, 2, 16 }, { 7, 0, 1, 5 }, { 7, 1, 0, 4 },
        { 7, 0, 1, 16 }, { 7, 0, 1, 28 }, { 7, 0, 1, 17 }, { 7, 0, 1, 30 }, { 7, 0, 1, 27 }, { 7, 0, 1, 26 }, { 7, 0, 1, 21 },
        { 7, 0, 2, 1 }, { 7, 0, 2, 6 }, { 7, 0, 2, 11 }
    };
    void src_cpuid(int reg[4], int level, int count)
    {
        uint32_t r[4];
        // noise: every bit the detector must NOT look at is set, so that reading a wrong bit position is visible
        for (int i = 0; i < 4; ++i)
            r[i] = g_cfg.noise ? 0xffffffffu : 0u;
        for (int f = 0; f < 20; ++f)
            if (kPos[f].leaf == level && kPos[f].sub == count)
            {
                if ((g_cfg.bits >> f) & 1)
                    r[kPos[f].reg] |= (1u << kPos[f].bit);
                else
                    r[kPos[f].reg] &= ~(1u << kPos[f].bit);
            }
        if (level == 1)
        {
            if (g_cfg.osxsave)
                r[2] |= (1u << 27);
            else
                r[2] &= ~(1u << 27);
        }
        for (int i = 0; i < 4; ++i)
            reg[i] = (int)r[i];
    }
    uint32_t src_xcr0()
    {
        uint32_t v = g_cfg.noise ? 0xffffff19u : 0u; // bits 0, 3, 4, 8.. are noise
        if (g_cfg.x1)
            v |= 2u;
        if (g_cfg.x2)
            v |= 4u;
        if (g_cfg.x567)
            v |= 0xe0u;
        return v;
    }
    xsimd::detail::verif_cpu_source g_src = { src_cpuid, src_xcr0, true };

    void set_cfg(const uint8_t* p)
    {
        g_cfg.bits = p[0] | (p[1] << 8) | (p[2] << 16);
        g_cfg.osxsave = p[3] & 1;
        g_cfg.x1 = p[3] & 2;
        g_cfg.x2 = p[3] & 4;
        g_cfg.x567 = p[3] & 8;
        g_cfg.noise = p[4] & 1;
    }
    // ArchNames order of spec/Cpuid.tla
    void put_flags(const xsimd::detail::supported_arch& s, uint8_t* o)
    {
        const unsigned f[23] = { s.sse2, s.sse3, s.ssse3, s.sse4_1, s.sse4_2, s.fma3_sse42, s.fma4, s.avx, s.fma3_avx, s.avx2, s.avxvnni,
                                 s.fma3_avx2, s.avx512f, s.avx512cd, s.avx512dq, s.avx512bw, s.avx512er, s.avx512pf, s.avx512ifma,
                                 s.avx512vbmi, s.avx512vbmi2, s.avx512vnni_bw, s.avx512vnni_vbmi2 };
        for (int i = 0; i < 23; ++i)
            o[i] = f[i] ? 1 : 0;
    }
    // the same through the public has() accessors
    void put_has(const xsimd::detail::supported_arch& s, uint8_t* o)
    {
        using namespace xsimd;
        const bool f[23] = { s.has(sse2 {}), s.has(sse3 {}), s.has(ssse3 {}), s.has(sse4_1 {}), s.has(sse4_2 {}), s.has(fma3<sse4_2> {}), s.has(fma4 {}),
                             s.has(avx {}), s.has(fma3<avx> {}), s.has(avx2 {}), s.has(avxvnni {}), s.has(fma3<avx2> {}), s.has(avx512f {}),
                             s.has(avx512cd {}), s.has(avx512dq {}), s.has(avx512bw {}), s.has(avx512er {}), s.has(avx512pf {}), s.has(avx512ifma {}),
                             s.has(avx512vbmi {}), s.has(avx512vbmi2 {}), s.has(avx512vnni<avx512bw> {}), s.has(avx512vnni<avx512vbmi2> {}) };
        for (int i = 0; i < 23; ++i)
            o[i] = f[i] ? 1 : 0;
    }

    template <class A>
    struct arch_id;
#define AID(T, n)                       \
    template <>                         \
    struct arch_id<T>                   \
    {                                   \
        static constexpr int value = n; \
    };
    AID(xsimd::sse2, 1) AID(xsimd::sse3, 2) AID(xsimd::ssse3, 3) AID(xsimd::sse4_1, 4) AID(xsimd::sse4_2, 5)
    AID(xsimd::fma3<xsimd::sse4_2>, 6) AID(xsimd::fma4, 7) AID(xsimd::avx, 8) AID(xsimd::fma3<xsimd::avx>, 9) AID(xsimd::avx2, 10)
    AID(xsimd::avxvnni, 11) AID(xsimd::fma3<xsimd::avx2>, 12) AID(xsimd::avx512f, 13) AID(xsimd::avx512cd, 14) AID(xsimd::avx512dq, 15)
    AID(xsimd::avx512bw, 16) AID(xsimd::avx512er, 17) AID(xsimd::avx512pf, 18) AID(xsimd::avx512ifma, 19) AID(xsimd::avx512vbmi, 20)
    AID(xsimd::avx512vbmi2, 21) AID(xsimd::avx512vnni<xsimd::avx512bw>, 22) AID(xsimd::avx512vnni<xsimd::avx512vbmi2>, 23)
#undef AID

    int g_calls[8];
    int g_ncalls;
    long g_seen_a, g_seen_b;
    // third argument: an object whose VALUE CATEGORY the functor observes through overload resolution
    // (0 = const lvalue, 1 = non-const lvalue, 2 = rvalue): "forwards the arguments" includes how they are passed on
    struct tracker
    {
        int v;
    };
    int g_seen_cat;
    struct probe
    {
        template <class Arch>
        long call(long a, const long& b, int cat) const
        {
            if (g_ncalls < 8)
                g_calls[g_ncalls] = arch_id<Arch>::value;
            ++g_ncalls;
            g_seen_a = a;
            g_seen_b = b;
            g_seen_cat = cat;
            return a * 31 + b * 7 + arch_id<Arch>::value; // result derived from the arguments and the architecture
        }
        template <class Arch>
        long operator()(Arch, long a, const long& b, const tracker&) const { return call<Arch>(a, b, 0); }
        template <class Arch>
        long operator()(Arch, long a, const long& b, tracker&) const { return call<Arch>(a, b, 1); }
        template <class Arch>
        long operator()(Arch, long a, const long& b, tracker&&) const { return call<Arch>(a, b, 2); }
    };
    template <class D>
    long call_with_category(D& d, long x, long y, int cat)
    {
        const tracker ct { 7 };
        tracker t { 8 };
        g_seen_cat = 9;
        return cat == 0 ? d(x, y, ct) : cat == 1 ? d(x, y, t) : d(x, y, tracker { 9 });
    }

    // dispatch through arch_list L under the current injected configuration.
    // output: [ncalls, called ids (up to 8)..., ret (4 bytes LE), seen a (2 bytes), seen b (2 bytes), flags (23)]
    template <class L>
    void run_dispatch(const vd::Args& a, vd::Out& o)
    {
        set_cfg(a.in[0]);
        g_src.bypass_cache = true;
        xsimd::detail::verif_cpu_source_slot() = &g_src;
        g_ncalls = 0;
        for (int i = 0; i < 8; ++i)
            g_calls[i] = 0;
        long x = a.in[1][0] | (a.in[1][1] << 8), y = a.in[1][2] | (a.in[1][3] << 8);
        auto d = xsimd::dispatch<L>(probe {});
        long ret = call_with_category(d, x, y, a.in[1][4] % 3);
        xsimd::detail::supported_arch fl = xsimd::available_architectures();
        xsimd::detail::verif_cpu_source_slot() = nullptr;
        int k = 0;
        o.bytes[k++] = (uint8_t)g_ncalls;
        for (int i = 0; i < 8; ++i)
            o.bytes[k++] = (uint8_t)g_calls[i];
        vd::st<uint32_t>(o.bytes + k, (uint32_t)ret);
        k += 4;
        vd::st<uint16_t>(o.bytes + k, (uint16_t)g_seen_a);
        k += 2;
        vd::st<uint16_t>(o.bytes + k, (uint16_t)g_seen_b);
        k += 2;
        put_flags(fl, o.bytes + k);
        k += 23;
        o.bytes[k++] = (uint8_t)g_seen_cat; // last byte: the value category the functor saw
        o.len = k;
    }

    // ids of the members of an arch_list, in order
    template <class L>
    struct list_ids;
    template <class... As>
    struct list_ids<xsimd::arch_list<As...>>
    {
        static int put(uint8_t* o)
        {
            const int ids[] = { arch_id<As>::value..., 0 };
            int n = (int)sizeof...(As);
            for (int i = 0; i < n; ++i)
                o[i] = (uint8_t)ids[i];
            return n;
        }
    };
    // dispatch(f) with the DEFAULT list (supported_architectures); the list itself is appended to the observation:
    // [.. as run_dispatch (40 bytes) .., n, ids..., id of best_arch, id of default_arch]
    void run_dispatch_default(const vd::Args& a, vd::Out& o)
    {
        set_cfg(a.in[0]);
        g_src.bypass_cache = true;
        xsimd::detail::verif_cpu_source_slot() = &g_src;
        g_ncalls = 0;
        for (int i = 0; i < 8; ++i)
            g_calls[i] = 0;
        long x = a.in[1][0] | (a.in[1][1] << 8), y = a.in[1][2] | (a.in[1][3] << 8);
        auto d = xsimd::dispatch(probe {});
        long ret = call_with_category(d, x, y, a.in[1][4] % 3);
        xsimd::detail::supported_arch fl = xsimd::available_architectures();
        xsimd::detail::verif_cpu_source_slot() = nullptr;
        int k = 0;
        o.bytes[k++] = (uint8_t)g_ncalls;
        for (int i = 0; i < 8; ++i)
            o.bytes[k++] = (uint8_t)g_calls[i];
        vd::st<uint32_t>(o.bytes + k, (uint32_t)ret);
        k += 4;
        vd::st<uint16_t>(o.bytes + k, (uint16_t)g_seen_a);
        k += 2;
        vd::st<uint16_t>(o.bytes + k, (uint16_t)g_seen_b);
        k += 2;
        put_flags(fl, o.bytes + k);
        k += 23;
        int n = list_ids<xsimd::supported_architectures>::put(o.bytes + k + 1);
        o.bytes[k] = (uint8_t)n;
        k += 1 + n;
        o.bytes[k++] = (uint8_t)arch_id<xsimd::best_arch>::value;
        o.bytes[k++] = (uint8_t)arch_id<xsimd::default_arch>::value;
        o.bytes[k++] = (uint8_t)g_seen_cat; // last byte: the value category the functor saw
        o.len = k;
    }

    struct Registrar
    {
        Registrar()
        {
            vd::ArchTable tab;
            tab.name = "detector";
            tab.regbytes = 0;
            // flags of available_architectures() (cache bypassed), of a directly constructed supported_arch and through has()
            tab.entries.push_back({ "cpu", "detect", "-", +[](const vd::Args& a, vd::Out& o)
                                    {
                                        set_cfg(a.in[0]);
                                        g_src.bypass_cache = true;
                                        xsimd::detail::verif_cpu_source_slot() = &g_src;
                                        xsimd::detail::supported_arch s1 = xsimd::available_architectures();
                                        xsimd::detail::supported_arch s2;
                                        xsimd::detail::verif_cpu_source_slot() = nullptr;
                                        put_flags(s1, o.bytes);
                                        put_flags(s2, o.bytes + 23);
                                        put_has(s1, o.bytes + 46);
                                        o.len = 69;
                                    } });
            // the same call with the cache in place: the process-wide static keeps the first detection
            tab.entries.push_back({ "cpu", "cached", "-", +[](const vd::Args& a, vd::Out& o)
                                    {
                                        set_cfg(a.in[0]);
                                        g_src.bypass_cache = false;
                                        xsimd::detail::verif_cpu_source_slot() = &g_src;
                                        xsimd::detail::supported_arch s1 = xsimd::available_architectures();
                                        xsimd::detail::verif_cpu_source_slot() = nullptr;
                                        put_flags(s1, o.bytes);
                                        o.len = 23;
                                    } });
            tab.entries.push_back({ "disp", "Ldef", "-", run_dispatch_default });
#include "gen_dispatch.inc"
            vd::registry().push_back(std::move(tab));
        }
    } registrar_instance;
}
