// Pseudo-architecture "allocator": aligned_allocator histories, is_aligned, get_alignment_offset (property C18).
// Stateful: blocks live in numbered slots across plan lines of one process.
#include "vd.hpp"
#include <malloc.h>
#include <new>
#include <xsimd/xsimd.hpp>

// The system allocator underneath aligned_allocator is observed too (link with --wrap=posix_memalign --wrap=free): the number of
// blocks obtained from posix_memalign and not yet returned through free is logged after every allocate / deallocate, so that a
// block the allocator keeps for ever (a leak INSIDE deallocate) shows in the trace.
extern "C"
{
    int __real_posix_memalign(void**, size_t, size_t);
    void __real_free(void*);
    static void* g_sys[1024];
    static int g_nsys = 0;
    int __wrap_posix_memalign(void** p, size_t a, size_t s)
    {
        int r = __real_posix_memalign(p, a, s);
        if (r == 0 && *p && g_nsys < 1024)
            g_sys[g_nsys++] = *p;
        return r;
    }
    void __wrap_free(void* p)
    {
        if (p)
            for (int i = 0; i < g_nsys; ++i)
                if (g_sys[i] == p)
                {
                    g_sys[i] = g_sys[--g_nsys];
                    break;
                }
        __real_free(p);
    }
}

namespace
{
    struct S48
    {
        char c[48];
    };
    struct Slot
    {
        void* p;
        uint64_t bytes;
        uint8_t tag;
        uint64_t n; // the element count of the request: deallocate(p, n) gets the same n, as containers pass it
    };
    Slot g_slots[64];

    void fill(uint8_t* p, uint64_t bytes, uint8_t tag)
    {
        if (bytes <= (1u << 20))
        {
            for (uint64_t i = 0; i < bytes; ++i)
                p[i] = (uint8_t)(tag + i * 7);
        }
        else
        {
            for (uint64_t i = 0; i < 256; ++i)
            {
                p[i] = (uint8_t)(tag + i * 7);
                p[bytes - 1 - i] = (uint8_t)(tag + (bytes - 1 - i) * 7);
            }
        }
    }
    bool intact(const uint8_t* p, uint64_t bytes, uint8_t tag)
    {
        if (bytes <= (1u << 20))
        {
            for (uint64_t i = 0; i < bytes; ++i)
                if (p[i] != (uint8_t)(tag + i * 7))
                    return false;
            return true;
        }
        for (uint64_t i = 0; i < 256; ++i)
            if (p[i] != (uint8_t)(tag + i * 7) || p[bytes - 1 - i] != (uint8_t)(tag + (bytes - 1 - i) * 7))
                return false;
        return true;
    }

    // allocate: imm = slot, in[0] = n (8 bytes LE).  out: [outcome (1 = pointer, 2 = bad_alloc, 3 = other exception),
    //   pointer (8), usable size (8), n*sizeof(T) as the harness wrote it (8, modulo 2^64), sizeof(T) (1), wrote (1)]
    template <class T, size_t A>
    void do_alloc(const vd::Args& a, vd::Out& o)
    {
        xsimd::aligned_allocator<T, A> al;
        uint64_t n = vd::ld<uint64_t>(a.in[0]);
        Slot& s = g_slots[a.imm & 63];
        memset(o.bytes, 0, 32);
        o.len = 28;
        o.bytes[25] = (uint8_t)sizeof(T);
        s.n = n;
        try
        {
            T* p = al.allocate(n);
            o.bytes[0] = 1;
            vd::st<uint64_t>(o.bytes + 1, (uint64_t)(uintptr_t)p);
            uint64_t usable = p ? malloc_usable_size(p) : 0;
            vd::st<uint64_t>(o.bytes + 9, usable);
            uint64_t bytes = n * sizeof(T);
            vd::st<uint64_t>(o.bytes + 17, bytes);
            // only write what the allocator really handed out (an undersized block must not crash the harness: it is logged)
            uint64_t w = bytes <= usable ? bytes : usable;
            if (p && w)
                fill(reinterpret_cast<uint8_t*>(p), w, (uint8_t)(a.imm * 37 + 11));
            o.bytes[26] = (w == bytes);
            s.p = p;
            s.bytes = w;
            s.tag = (uint8_t)(a.imm * 37 + 11);
        }
        catch (std::bad_alloc&)
        {
            o.bytes[0] = 2;
        }
        catch (...)
        {
            o.bytes[0] = 3;
        }
        o.bytes[27] = (uint8_t)(g_nsys > 255 ? 255 : g_nsys); // system blocks outstanding after the call
    }
    // deallocate: imm = slot. out: [pointer (8), pattern intact (1)]
    template <class T, size_t A>
    void do_free(const vd::Args& a, vd::Out& o)
    {
        xsimd::aligned_allocator<T, A> al;
        Slot& s = g_slots[a.imm & 63];
        vd::st<uint64_t>(o.bytes, (uint64_t)(uintptr_t)s.p);
        o.bytes[8] = (s.p == nullptr || s.bytes == 0 || intact(reinterpret_cast<uint8_t*>(s.p), s.bytes, s.tag)) ? 1 : 0;
        al.deallocate(reinterpret_cast<T*>(s.p), s.n);
        s.p = nullptr;
        s.bytes = 0;
        s.n = 0;
        o.bytes[9] = (uint8_t)(g_nsys > 255 ? 255 : g_nsys); // system blocks outstanding after the call
        o.len = 10;
    }
    // the allocator obtained through rebind<U>::other (what containers use) keeps the alignment
    template <class T, size_t A>
    void do_ralloc(const vd::Args& a, vd::Out& o)
    {
        using R = typename xsimd::aligned_allocator<T, A>::template rebind<double>::other;
        using R2 = typename std::allocator_traits<xsimd::aligned_allocator<T, A>>::template rebind_alloc<double>;
        R al;
        R2 al2;
        uint64_t n = vd::ld<uint64_t>(a.in[0]);
        memset(o.bytes, 0, 40);
        o.len = 29;
        o.bytes[25] = (uint8_t)sizeof(double);
        try
        {
            double* p = (a.imm & 1) ? al2.allocate(n) : al.allocate(n);
            o.bytes[0] = 1;
            vd::st<uint64_t>(o.bytes + 1, (uint64_t)(uintptr_t)p);
            vd::st<uint64_t>(o.bytes + 9, (uint64_t)(p ? malloc_usable_size(p) : 0));
            vd::st<uint64_t>(o.bytes + 17, n * sizeof(double));
            o.bytes[26] = 1;
            o.bytes[27] = (al == xsimd::aligned_allocator<T, A>()) ? 1 : 0;     // compares equal to the allocator it was rebound from
            o.bytes[28] = (al2 == xsimd::aligned_allocator<T, A>()) ? 1 : 0;
            if (a.imm & 1)
                al2.deallocate(p, n);
            else
                al.deallocate(p, n);
        }
        catch (std::bad_alloc&)
        {
            o.bytes[0] = 2;
        }
    }

    template <class T, size_t A>
    void reg_ta(vd::ArchTable& tab, const char* tn)
    {
        static std::vector<std::string> names;
        names.reserve(1024);
        names.push_back(std::string("allocate:") + tn + ":" + std::to_string(A));
        tab.entries.push_back({ "al", names.back().c_str(), "-", &do_alloc<T, A> });
        names.push_back(std::string("deallocate:") + tn + ":" + std::to_string(A));
        tab.entries.push_back({ "al", names.back().c_str(), "-", &do_free<T, A> });
        names.push_back(std::string("rebind:") + tn + ":" + std::to_string(A));
        tab.entries.push_back({ "al", names.back().c_str(), "-", &do_ralloc<T, A> });
        names.push_back(std::string("maxsize:") + tn + ":" + std::to_string(A));
        tab.entries.push_back({ "al", names.back().c_str(), "-", +[](const vd::Args&, vd::Out& o)
                                { xsimd::aligned_allocator<T, A> al; vd::st<uint64_t>(o.bytes, (uint64_t)al.max_size()); o.bytes[8] = (uint8_t)sizeof(T); o.len = 9; } });
    }
    template <class T>
    void reg_t(vd::ArchTable& tab, const char* tn)
    {
        reg_ta<T, 8>(tab, tn);
        reg_ta<T, 16>(tab, tn);
        reg_ta<T, 32>(tab, tn);
        reg_ta<T, 64>(tab, tn);
        reg_ta<T, 128>(tab, tn);
        reg_ta<T, 256>(tab, tn);
        reg_ta<T, 512>(tab, tn);
        reg_ta<T, 1024>(tab, tn);
        reg_ta<T, 2048>(tab, tn);
        reg_ta<T, 4096>(tab, tn);
    }
    template <size_t A1, size_t A2>
    void reg_eq(vd::ArchTable& tab)
    {
        static std::vector<std::string> names;
        names.reserve(256);
        names.push_back("alloc_eq:" + std::to_string(A1) + ":" + std::to_string(A2));
        tab.entries.push_back({ "al", names.back().c_str(), "-", +[](const vd::Args&, vd::Out& o)
                                {
                                    xsimd::aligned_allocator<int, A1> x;
                                    xsimd::aligned_allocator<double, A2> y;
                                    o.bytes[0] = (x == y) ? 1 : 0;
                                    o.bytes[1] = (x != y) ? 1 : 0;
                                    o.len = 2;
                                } });
    }
    // get_alignment_offset: in[0] = [pointer (8), size (8), block (8)] -> 8 bytes
    template <class T>
    void reg_off(vd::ArchTable& tab, const char* nm)
    {
        tab.entries.push_back({ "al", nm, "-", +[](const vd::Args& a, vd::Out& o)
                                {
                                    uint64_t p = vd::ld<uint64_t>(a.in[0]), size = vd::ld<uint64_t>(a.in[0] + 8), block = vd::ld<uint64_t>(a.in[0] + 16);
                                    vd::st<uint64_t>(o.bytes, (uint64_t)xsimd::get_alignment_offset(reinterpret_cast<const T*>((uintptr_t)p), (size_t)size, (size_t)block));
                                    o.bytes[8] = (uint8_t)sizeof(T);
                                    o.len = 9;
                                } });
    }
    template <class Arch>
    void reg_isal(vd::ArchTable& tab, const char* nm)
    {
        tab.entries.push_back({ "al", nm, "-", +[](const vd::Args& a, vd::Out& o)
                                {
                                    uint64_t p = vd::ld<uint64_t>(a.in[0]);
                                    o.bytes[0] = xsimd::is_aligned<Arch>(reinterpret_cast<const void*>((uintptr_t)p)) ? 1 : 0;
                                    vd::st<uint16_t>(o.bytes + 1, (uint16_t)Arch::alignment());
                                    o.len = 3;
                                } });
    }

    struct Registrar
    {
        Registrar()
        {
            vd::ArchTable tab;
            tab.name = "allocator";
            tab.regbytes = 0;
            reg_t<char>(tab, "1");
            reg_t<int32_t>(tab, "4");
            reg_t<double>(tab, "8");
            reg_t<S48>(tab, "48");
            reg_eq<8, 8>(tab);
            reg_eq<8, 16>(tab);
            reg_eq<16, 8>(tab);
            reg_eq<16, 16>(tab);
            reg_eq<32, 64>(tab);
            reg_eq<64, 64>(tab);
            reg_eq<64, 32>(tab);
            reg_eq<4096, 4096>(tab);
            reg_eq<4096, 2048>(tab);
            reg_off<uint8_t>(tab, "offset:1");
            reg_off<uint16_t>(tab, "offset:2");
            reg_off<float>(tab, "offset:4");
            reg_off<double>(tab, "offset:8");
            reg_isal<xsimd::sse2>(tab, "is_aligned:sse2");
            reg_isal<xsimd::sse4_2>(tab, "is_aligned:sse4_2");
            reg_isal<xsimd::avx>(tab, "is_aligned:avx");
            reg_isal<xsimd::avx2>(tab, "is_aligned:avx2");
            reg_isal<xsimd::fma3<xsimd::avx2>>(tab, "is_aligned:fma3_avx2");
            reg_isal<xsimd::avx512f>(tab, "is_aligned:avx512f");
            reg_isal<xsimd::avx512bw>(tab, "is_aligned:avx512bw");
            reg_isal<xsimd::default_arch>(tab, "is_aligned:default");
            // default allocator serves aligned loads/stores of the default architecture
            tab.entries.push_back({ "al", "default_alloc", "-", +[](const vd::Args& a, vd::Out& o)
                                    {
                                        using B = xsimd::batch<float>;
                                        xsimd::default_allocator<float> al;
                                        uint64_t n = vd::ld<uint64_t>(a.in[0]);
                                        float* p = al.allocate(n * B::size);
                                        for (uint64_t i = 0; i < n; ++i)
                                        {
                                            B v((float)i);
                                            v.store_aligned(p + i * B::size);
                                        }
                                        B acc(0.f);
                                        for (uint64_t i = 0; i < n; ++i)
                                            acc += B::load_aligned(p + i * B::size);
                                        vd::st<uint64_t>(o.bytes, (uint64_t)(uintptr_t)p);
                                        vd::st<uint16_t>(o.bytes + 8, (uint16_t)xsimd::default_arch::alignment());
                                        vd::st<uint16_t>(o.bytes + 10, (uint16_t)(sizeof(float) * B::size));
                                        vd::st<float>(o.bytes + 12, acc.get(0));
                                        al.deallocate(p, n * B::size);
                                        o.len = 16;
                                    } });
            vd::registry().push_back(std::move(tab));
        }
    } registrar_instance;
}
