#!/bin/sh
# Offline setup: checks the tools and pre-parses every specification. Builds nothing from /repo (checks rebuild
# the harness from /repo's working tree on every run, cached by content hash under /verif/build).
cd "$(dirname "$0")" || exit 1
mkdir -p build/tlc evidence replays
for t in java g++ python3; do command -v $t >/dev/null || { echo "missing $t"; exit 1; }; done
test -f /opt/veriftools/tla/tla2tools.jar || { echo "missing tla2tools.jar"; exit 1; }
rc=0
for f in spec/*.tla; do
  out=$(cd spec && java -cp /opt/veriftools/tla/tla2tools.jar:/opt/veriftools/tla/CommunityModules-deps.jar tla2sany.SANY "$(basename "$f")" 2>&1)
  if echo "$out" | grep -qE "Fatal errors|\*\*\* Errors|Could not parse|Semantic errors"; then echo "SANY failed on $f"; echo "$out" | tail -20; rc=1; fi
done
exit $rc
