"""Bit-pattern generators for IEEE binary32/64 operands (inputs only; never an oracle)."""
import struct


def f2b(x, bits):
    try:
        return struct.unpack("<I", struct.pack("<f", x))[0] if bits == 32 else struct.unpack("<Q", struct.pack("<d", x))[0]
    except OverflowError:
        return (0x7f800000 if x > 0 else 0xff800000) if bits == 32 else (0x7ff0000000000000 if x > 0 else 0xfff0000000000000)


def b2f(b, bits):
    return struct.unpack("<f", struct.pack("<I", b))[0] if bits == 32 else struct.unpack("<d", struct.pack("<Q", b))[0]


def neighbours(b, bits, k=2):
    """bit patterns within k steps on the ordered line (same sign region)"""
    m = (1 << bits) - 1
    return [(b + d) & m for d in range(-k, k + 1)]


def around(x, bits, k=2):
    out = []
    for s in (x, -x):
        out += neighbours(f2b(s, bits), bits, k)
    return out


def integral_lattice(bits, rng, nrand):
    """values around every k/2 and k +- ulp that matter for rounding and float->int conversion"""
    p = 24 if bits == 32 else 53
    vals = []
    for k in list(range(0, 12)) + [15, 16, 17, 127, 128, 129, 255, 256, 257, 32767, 32768, 65535, 65536]:
        for h in (0.0, 0.5, 0.25, 0.75):
            vals += around(k + h, bits, 2)
    for e in list(range(p - 4, p + 3)) + [31, 32, 63, 64, 30, 62, 7, 8, 15, 16]:
        base = float(1 << e)
        vals += around(base, bits, 3)
        vals += around(base - 0.5, bits, 2) + around(base + 0.5, bits, 2) + around(base - 1.0, bits, 2) + around(base + 1.0, bits, 2)
        vals += around(base * 1.5, bits, 2)
    vals += around(0.49999997, 32, 3) if bits == 32 else around(0.49999999999999994, 64, 3)
    vals += around(1e-30, bits, 1) + around(1e30 if bits == 32 else 1e300, bits, 1)
    for _ in range(nrand):
        # random values whose integer part is interesting: mantissa random, exponent in [-2, p+3]
        e = rng.randint(-3, p + 3)
        vals.append(f2b((rng.random() + 1.0) * (2.0 ** e) * rng.choice((1, -1)), bits))
    return vals
