"""Flow shared by all properties whose events are rows of lanes: plan -> harness (all architectures) ->
merged ndjson events -> TLC trace validation (16 processes) -> rejects -> known findings / violations."""
import json
import os
from collections import defaultdict

import vf


def record(ctx, fam, plan_lines, tag, archsets=("x86", "emu"), watchdog_ms=0, extra_flags=(), only=None):
    """Execute the plan on every architecture; returns merged list of event dicts (archs merged across binaries)."""
    plan = os.path.join(ctx.work, tag + ".plan")
    with open(plan, "w") as f:
        f.write("\n".join(plan_lines) + "\n")
    merged = {}
    order = []
    for aset in archsets:
        exe = vf.build(fam, aset, extra_flags=extra_flags)
        out = os.path.join(ctx.work, "%s.%s.ndjson" % (tag, aset))
        vf.run_plan(exe, plan, out, watchdog_ms, only=only)
        with open(out) as f:
            for line in f:
                e = json.loads(line)
                key = (e["id"], e["k"], e.get("w", 0), tuple(e.get("r", ())), e.get("sig", 0))
                if key in merged:
                    merged[key]["archs"] += e["archs"]
                else:
                    merged[key] = e
                    order.append(key)
        os.remove(out)
    return [merged[k] for k in order], plan_lines


def nontrivial(e):
    r = e.get("r")
    if r is None:
        return False
    return all(e.get(k) != r for k in ("a", "b", "c", "d"))


def validate(ctx, module, events, tag, plan_lines=None, cfg=None, matcher=None, lanes_of=None, env_extra=None, corrupt=None, min_kill=0.5):
    """TLC-validate events; classify rejects. matcher(reject, event) -> known-finding id or None."""
    if not events:
        return []
    trace = os.path.join(ctx.work, tag + ".all.ndjson")
    with open(trace, "w") as f:
        for e in events:
            f.write(json.dumps(e, separators=(",", ":")) + "\n")
    shards, n = vf.split_file(trace, vf.NCPU, ctx.work, tag)
    os.remove(trace)
    probe = binding_probe(ctx, events, tag, corrupt=corrupt)
    rejects, stats, errors = vf.tlc_validate(module, shards + ([probe] if probe else []), cfg=cfg, env_extra=env_extra, timeout=1500 if ctx.quick else 10800)
    if errors:
        raise vf.InfraError("TLC trace validation failed on %s (rc=%s):\n%s" % (errors[0][0], errors[0][1], errors[0][2]))
    for s in shards:
        os.remove(s)
    if probe:
        # binding demonstration (DESIGN 4.3): recorded events with ONE corrupted result bit must be rejected by the same
        # trace specification in the same run; they never count as coverage or as violations
        pst = [st for st in stats if st["_trace"] == probe][0]
        stats = [st for st in stats if st["_trace"] != probe]
        killed = len({rj["id"] for rj in rejects if rj["trace"] == probe})
        rejects = [rj for rj in rejects if rj["trace"] != probe]
        os.remove(probe)
        bp = ctx.cov.setdefault("binding_probe", {})
        bp[tag] = dict(corrupted=pst.get("events", 0), rejected=killed)
        if pst.get("events", 0) >= 20 and killed < min_kill * pst["events"]:
            raise vf.InfraError("binding probe: only %d of %d corrupted events were rejected by %s - the trace specification does not constrain the results"
                                % (killed, pst["events"], module))
    fam = ctx.cov["trace_families"].setdefault(tag, dict(events=0, accepted=0, rejected=0, lanes=0))
    for st in stats:
        fam["events"] += st.get("events", 0)
        fam["accepted"] += st.get("accepted", 0)
        fam["rejected"] += st.get("rejected", 0)
        fam["lanes"] += st.get("lanes", 0)
        ctx.cov["evaluations"] += st.get("lanes", 0) or st.get("events", 0)
    ctx.cov["traces_validated_against_impl"] += len(shards)
    ctx.cov["distinct_nontrivial"] += len({(e["op"], e["t"], e.get("imm", 0), tuple(e.get("a", ())), tuple(e.get("b", ())), tuple(e.get("c", ())))
                                           for e in events if nontrivial(e)})
    byid = defaultdict(list)
    for e in events:
        byid[e["id"]].append(e)
    if len(ctx.cov["samples"]) < 12 and events:
        for e in (events[0], events[len(events) // 2], events[-1]):
            ctx.cov["samples"].append({k: e[k] for k in e if k in ("k", "op", "t", "imm", "a", "b", "r", "archs", "w")})
    groups = defaultdict(list)
    for rj in rejects:
        rid = int(rj["id"])
        ev = None
        for e in byid.get(rid, ()):
            if json.dumps(e["archs"]).replace('"', '').replace(' ', '') == rj.get("archs", "").replace('<<', '[').replace('>>', ']').replace('"', '').replace(' ', ''):
                ev = e
        ev = ev or (byid[rid][0] if byid.get(rid) else None)
        kid = matcher(rj, ev) if matcher else None
        if not kid and rj.get("known", "-") not in ("-", ""):
            # the trace specification classified the rejection as a named known deviation (TLC decides, exactly);
            # it is suppressed only while known_findings.json lists that id with status "known"
            if any(k["id"] == rj["known"] and k.get("status") == "known" for k in vf.load_known(ctx.prop)):
                kid = rj["known"]
        if kid:
            ctx.known_hits[kid] = ctx.known_hits.get(kid, 0) + 1
            continue
        groups[(rj.get("k", "?"), rj.get("op", "?"), rj.get("t", "?"))].append((rj, ev))
    out = []
    for (k, op, t), lst in sorted(groups.items()):
        lines = []
        seen = set()
        for rj, ev in lst[:25]:
            rid = int(rj["id"])
            if plan_lines and rid not in seen and 1 <= rid <= len(plan_lines):
                lines.append(plan_lines[rid - 1])
                seen.add(rid)
            lines.append("# " + json.dumps(dict(reject=rj, event=ev), separators=(",", ":")))
        p = ctx.write_replay("%s-%s-%s-%s" % (tag, k, vf.slug(op), t), lines)
        archs = sorted({a for rj, ev in lst for a in (ev["archs"] if ev else [])})
        desc = "%d rejected %s/%s/%s event(s); archs=%s; first: %s" % (len(lst), k, op, t, ",".join(archs)[:200], {kk: vv for kk, vv in lst[0][0].items() if kk != "trace"})
        ctx.violations.append((desc, p))
        out.append((k, op, t, lst))
    return out


def flip_result_bit(e, rng):
    if not (isinstance(e.get("r"), list) and e["r"] and e.get("k") != "fault" and all(isinstance(v, int) for v in e["r"])):
        return None
    c = dict(e)
    r = list(e["r"])
    j = rng.randrange(len(r))
    r[j] ^= 1 if max(r) <= 1 else (1 << rng.randrange(8))
    c["r"] = r
    return c


def binding_probe(ctx, events, tag, k=None, corrupt=None):
    """copies of up to k recorded events, each corrupted in one observed field (default: one bit of the result row flipped);
    deterministic in the seed.  Returns the path of the probe trace or None."""
    import random
    if os.environ.get("VERIF_NO_PROBE"):
        return None
    k = k or ctx.q(64, 256)
    rng = random.Random(ctx.seed * 7919 + len(events))
    out = []
    idx = list(range(len(events)))
    rng.shuffle(idx)
    for i in idx:
        c = (corrupt or flip_result_bit)(events[i], rng)
        if c is not None:
            out.append(c)
            if len(out) >= k:
                break
    if not out:
        return None
    path = os.path.join(ctx.work, tag + ".probe.ndjson")
    with open(path, "w") as f:
        for c in out:
            f.write(json.dumps(c, separators=(",", ":")) + "\n")
    return path


def stateful_probe(ctx, module, events, tag, corrupt, k=None):
    """binding demonstration for stateful traces: the recorded trace with up to k events corrupted IN PLACE is validated once more;
    every corrupted event must be rejected (later events may be rejected as a consequence; they are not counted)."""
    import random
    if os.environ.get("VERIF_NO_PROBE"):
        return
    k = k or ctx.q(24, 96)
    rng = random.Random(ctx.seed * 7919 + len(events))
    idx = list(range(len(events)))
    rng.shuffle(idx)
    ev2 = list(events)
    ids = set()
    for i in idx:
        c = corrupt(events[i], rng)
        if c is not None:
            ev2[i] = c
            ids.add(str(c["id"]))
            if len(ids) >= k:
                break
    if not ids:
        return
    path = os.path.join(ctx.work, tag + ".sprobe.ndjson")
    with open(path, "w") as f:
        for c in ev2:
            f.write(json.dumps(c, separators=(",", ":")) + "\n")
    rejects, stats, errors = vf.tlc_validate(module, [path])
    if errors:
        raise vf.InfraError("TLC failed on the binding probe of %s rc=%s\n%s" % errors[0])
    os.remove(path)
    killed = len(ids & {rj["id"] for rj in rejects})
    ctx.cov.setdefault("binding_probe", {})[tag] = dict(corrupted=len(ids), rejected=killed, collateral=len({rj["id"] for rj in rejects}) - killed)
    if len(ids) >= 10 and killed * 2 < len(ids):
        raise vf.InfraError("binding probe: only %d of %d corrupted events were rejected by %s" % (killed, len(ids), module))


def replay_plan(path):
    with open(path) as f:
        return [ln.rstrip("\n") for ln in f if ln.strip() and not ln.startswith("#")]


# ---- relational events: two recorded results related per architecture ------------------------------------------
def results_by_line(events):
    """{plan id: {arch: event}}"""
    out = defaultdict(dict)
    for e in events:
        for a in e["archs"]:
            out[e["id"]][a] = e
    return out


def relate(byline, id1, id2, kind, op, t, extra=None, arch_map=None, r1_slice=None, r2_slice=None):
    """one relational event per distinct (result of line id1, result of line id2) pair, with the architectures that produced it.
    arch_map: optional {arch of id1: arch of id2} (e.g. batch arch -> 'scalar')."""
    groups = {}
    order = []
    for a, e1 in byline.get(id1, {}).items():
        a2 = arch_map(a) if arch_map else a
        e2 = byline.get(id2, {}).get(a2)
        if e2 is None:
            continue
        if e1["k"] == "fault" or e2["k"] == "fault":
            key = ("fault", a)
            ev = dict(id=id1, k="fault", op=op, t=t, archs=[a], sig=(e1 if e1["k"] == "fault" else e2).get("sig", 0))
        else:
            r1 = e1["r"][r1_slice[0]:r1_slice[1]] if r1_slice else e1["r"]
            r2 = e2["r"][r2_slice[0]:r2_slice[1]] if r2_slice else e2["r"]
            key = (tuple(r1), tuple(r2))
            ev = dict(id=id1, k=kind, op=op, t=t, r=r1, r2=r2, archs=[])
            for f in ("a", "b"):
                if f in e1:
                    ev[f] = e1[f]
            if extra:
                ev.update(extra)
        if key not in groups:
            groups[key] = ev
            order.append(key)
        if a not in groups[key]["archs"]:
            groups[key]["archs"].append(a)
    return [groups[k] for k in order]
