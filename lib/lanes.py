"""Flow shared by all properties whose events are rows of lanes: plan -> harness (all architectures) ->
merged ndjson events -> TLC trace validation (16 processes) -> rejects -> known findings / violations."""
import json
import os
from collections import defaultdict

import vf


def record(ctx, fam, plan_lines, tag, archsets=("x86", "emu"), watchdog_ms=0, extra_flags=(), only=None):
    """Execute the plan on every architecture; returns merged list of event dicts (archs merged across binaries)."""
    plan = os.path.join(ctx.work, tag + ".plan")
    with open(plan, "w") as f:
        f.write("\n".join(plan_lines) + "\n")
    merged = {}
    order = []
    for aset in archsets:
        exe = vf.build(fam, aset, extra_flags=extra_flags)
        out = os.path.join(ctx.work, "%s.%s.ndjson" % (tag, aset))
        vf.run_plan(exe, plan, out, watchdog_ms, only=only)
        with open(out) as f:
            for line in f:
                e = json.loads(line)
                key = (e["id"], e["k"], e.get("w", 0), tuple(e.get("r", ())), e.get("sig", 0))
                if key in merged:
                    merged[key]["archs"] += e["archs"]
                else:
                    merged[key] = e
                    order.append(key)
        os.remove(out)
    return [merged[k] for k in order], plan_lines


def nontrivial(e):
    r = e.get("r")
    if r is None:
        return False
    return all(e.get(k) != r for k in ("a", "b", "c", "d"))


def validate(ctx, module, events, tag, plan_lines=None, cfg=None, matcher=None, lanes_of=None, env_extra=None):
    """TLC-validate events; classify rejects. matcher(reject, event) -> known-finding id or None."""
    if not events:
        return []
    trace = os.path.join(ctx.work, tag + ".all.ndjson")
    with open(trace, "w") as f:
        for e in events:
            f.write(json.dumps(e, separators=(",", ":")) + "\n")
    shards, n = vf.split_file(trace, vf.NCPU, ctx.work, tag)
    os.remove(trace)
    rejects, stats, errors = vf.tlc_validate(module, shards, cfg=cfg, env_extra=env_extra)
    if errors:
        raise vf.InfraError("TLC trace validation failed on %s (rc=%s):\n%s" % (errors[0][0], errors[0][1], errors[0][2]))
    for s in shards:
        os.remove(s)
    fam = ctx.cov["trace_families"].setdefault(tag, dict(events=0, accepted=0, rejected=0, lanes=0))
    for st in stats:
        fam["events"] += st.get("events", 0)
        fam["accepted"] += st.get("accepted", 0)
        fam["rejected"] += st.get("rejected", 0)
        fam["lanes"] += st.get("lanes", 0)
        ctx.cov["evaluations"] += st.get("lanes", 0) or st.get("events", 0)
    ctx.cov["traces_validated_against_impl"] += len(shards)
    ctx.cov["distinct_nontrivial"] += len({(e["op"], e["t"], e.get("imm", 0), tuple(e.get("a", ())), tuple(e.get("b", ())), tuple(e.get("c", ())))
                                           for e in events if nontrivial(e)})
    byid = defaultdict(list)
    for e in events:
        byid[e["id"]].append(e)
    if len(ctx.cov["samples"]) < 12 and events:
        for e in (events[0], events[len(events) // 2], events[-1]):
            ctx.cov["samples"].append({k: e[k] for k in e if k in ("k", "op", "t", "imm", "a", "b", "r", "archs", "w")})
    groups = defaultdict(list)
    for rj in rejects:
        rid = int(rj["id"])
        ev = None
        for e in byid.get(rid, ()):
            if json.dumps(e["archs"]).replace('"', '').replace(' ', '') == rj.get("archs", "").replace('<<', '[').replace('>>', ']').replace('"', '').replace(' ', ''):
                ev = e
        ev = ev or (byid[rid][0] if byid.get(rid) else None)
        kid = matcher(rj, ev) if matcher else None
        if not kid and rj.get("known", "-") not in ("-", ""):
            # the trace specification classified the rejection as a named known deviation (TLC decides, exactly);
            # it is suppressed only while known_findings.json lists that id with status "known"
            if any(k["id"] == rj["known"] and k.get("status") == "known" for k in vf.load_known(ctx.prop)):
                kid = rj["known"]
        if kid:
            ctx.known_hits[kid] = ctx.known_hits.get(kid, 0) + 1
            continue
        groups[(rj.get("k", "?"), rj.get("op", "?"), rj.get("t", "?"))].append((rj, ev))
    out = []
    for (k, op, t), lst in sorted(groups.items()):
        lines = []
        seen = set()
        for rj, ev in lst[:25]:
            rid = int(rj["id"])
            if plan_lines and rid not in seen and 1 <= rid <= len(plan_lines):
                lines.append(plan_lines[rid - 1])
                seen.add(rid)
            lines.append("# " + json.dumps(dict(reject=rj, event=ev), separators=(",", ":")))
        p = ctx.write_replay("%s-%s-%s-%s" % (tag, k, vf.slug(op), t), lines)
        archs = sorted({a for rj, ev in lst for a in (ev["archs"] if ev else [])})
        desc = "%d rejected %s/%s/%s event(s); archs=%s; first: %s" % (len(lst), k, op, t, ",".join(archs)[:200], {kk: vv for kk, vv in lst[0][0].items() if kk != "trace"})
        ctx.violations.append((desc, p))
        out.append((k, op, t, lst))
    return out


def replay_plan(path):
    with open(path) as f:
        return [ln.rstrip("\n") for ln in f if ln.strip() and not ln.startswith("#")]


# ---- relational events: two recorded results related per architecture ------------------------------------------
def results_by_line(events):
    """{plan id: {arch: event}}"""
    out = defaultdict(dict)
    for e in events:
        for a in e["archs"]:
            out[e["id"]][a] = e
    return out


def relate(byline, id1, id2, kind, op, t, extra=None, arch_map=None, r1_slice=None, r2_slice=None):
    """one relational event per distinct (result of line id1, result of line id2) pair, with the architectures that produced it.
    arch_map: optional {arch of id1: arch of id2} (e.g. batch arch -> 'scalar')."""
    groups = {}
    order = []
    for a, e1 in byline.get(id1, {}).items():
        a2 = arch_map(a) if arch_map else a
        e2 = byline.get(id2, {}).get(a2)
        if e2 is None:
            continue
        if e1["k"] == "fault" or e2["k"] == "fault":
            key = ("fault", a)
            ev = dict(id=id1, k="fault", op=op, t=t, archs=[a], sig=(e1 if e1["k"] == "fault" else e2).get("sig", 0))
        else:
            r1 = e1["r"][r1_slice[0]:r1_slice[1]] if r1_slice else e1["r"]
            r2 = e2["r"][r2_slice[0]:r2_slice[1]] if r2_slice else e2["r"]
            key = (tuple(r1), tuple(r2))
            ev = dict(id=id1, k=kind, op=op, t=t, r=r1, r2=r2, archs=[])
            for f in ("a", "b"):
                if f in e1:
                    ev[f] = e1[f]
            if extra:
                ev.update(extra)
        if key not in groups:
            groups[key] = ev
            order.append(key)
        if a not in groups[key]["archs"]:
            groups[key]["archs"].append(a)
    return [groups[k] for k in order]
