"""Common machinery of the xsimd verification framework.

Build the conformance harness from /repo's current working tree, execute plans, validate the recorded
traces with TLC against the TLA+ specification (TLC is the only judge), match rejections against the
committed known-findings file, write evidence and produce the exit status of a check.
"""
import concurrent.futures as cf
import hashlib
import json
import os
import random
import re
import shutil
import subprocess
import sys
import time

VERIF = os.path.dirname(os.path.dirname(os.path.abspath(__file__)))
# evidence/ and replays/ live in /verif; evaluation runs against a scratch tree (tools/seeded_run.py) redirect them
OUTROOT = os.environ.get("VERIF_OUT", VERIF)
REPO = os.environ.get("VERIF_REPO", "/repo")
BUILD = os.path.join(VERIF, "build")
SPEC = os.path.join(VERIF, "spec")
HARNESS = os.path.join(VERIF, "harness")
NCPU = min(16, os.cpu_count() or 4)
GUARD = "XSIMD_VERIF"

# name, C++ type, register bytes, minimal ISA flags.  Every architecture's translation unit is compiled with exactly the
# -m flags that architecture needs, not -march=native: (i) the non-FMA kernels then really run without contraction,
# (ii) g++ 12.2 miscompiles _mm_blendv_epi8 fed by an inverted compare when AVX512VL+BW are enabled (select() on the
# sse4.1/avx2 architectures came out inverted under -march=native; -O0, clang 14 and the minimal flags all agree with the
# source), which is a toolchain defect and must not be reported against xsimd.
_F = ["-mavx512f"]
_CD = _F + ["-mavx512cd"]
_DQ = _CD + ["-mavx512dq"]
_BW = _DQ + ["-mavx512bw"]
_IFMA = _BW + ["-mavx512ifma"]
_VBMI = _IFMA + ["-mavx512vbmi"]
_VBMI2 = _VBMI + ["-mavx512vbmi2"]
X86_ARCHS = [
    ("sse2", "xsimd::sse2", 16, ["-msse2"]), ("sse3", "xsimd::sse3", 16, ["-msse3"]), ("ssse3", "xsimd::ssse3", 16, ["-mssse3"]),
    ("sse4_1", "xsimd::sse4_1", 16, ["-msse4.1"]), ("sse4_2", "xsimd::sse4_2", 16, ["-msse4.2"]),
    ("fma3<sse4_2>", "xsimd::fma3<xsimd::sse4_2>", 16, ["-msse4.2", "-mfma"]),
    ("avx", "xsimd::avx", 32, ["-mavx"]), ("fma3<avx>", "xsimd::fma3<xsimd::avx>", 32, ["-mavx", "-mfma"]),
    ("avx2", "xsimd::avx2", 32, ["-mavx2"]), ("fma3<avx2>", "xsimd::fma3<xsimd::avx2>", 32, ["-mavx2", "-mfma"]),
    ("avxvnni", "xsimd::avxvnni", 32, ["-mavx2", "-mavxvnni"]),
    ("avx512f", "xsimd::avx512f", 64, _F), ("avx512cd", "xsimd::avx512cd", 64, _CD), ("avx512dq", "xsimd::avx512dq", 64, _DQ),
    ("avx512bw", "xsimd::avx512bw", 64, _BW), ("avx512ifma", "xsimd::avx512ifma", 64, _IFMA),
    ("avx512vbmi", "xsimd::avx512vbmi", 64, _VBMI), ("avx512vbmi2", "xsimd::avx512vbmi2", 64, _VBMI2),
    ("avx512vnni<avx512bw>", "xsimd::avx512vnni<xsimd::avx512bw>", 64, _BW + ["-mavx512vnni"]),
    ("avx512vnni<avx512vbmi2>", "xsimd::avx512vnni<xsimd::avx512vbmi2>", 64, _VBMI2 + ["-mavx512vnni"]),
]
EMU_ARCHS = [("emulated<128>", "xsimd::emulated<128>", 16, ["-msse2"]), ("emulated<256>", "xsimd::emulated<256>", 32, ["-msse2"])]
ARCH_BYTES = {n: b for n, _, b, _f in X86_ARCHS + EMU_ARCHS}
ARCH_BYTES["scalar"] = 0

BASE_FLAGS = ["-std=c++17", "-O2", "-DNDEBUG", "-D%s=1" % GUARD, "-w"]


class InfraError(Exception):
    pass


def sh(cmd, **kw):
    return subprocess.run(cmd, stdout=subprocess.PIPE, stderr=subprocess.STDOUT, text=True, **kw)


def _hash_tree(root, exts):
    h = hashlib.sha256()
    for d, dirs, files in sorted(os.walk(root)):
        dirs.sort()
        for f in sorted(files):
            if f.endswith(exts):
                p = os.path.join(d, f)
                h.update(p.encode())
                with open(p, "rb") as fh:
                    h.update(fh.read())
    return h.hexdigest()


_repo_hash = None


def repo_hash():
    global _repo_hash
    if _repo_hash is None:
        _repo_hash = _hash_tree(os.path.join(REPO, "include"), (".hpp", ".h"))
    return _repo_hash


def slug(s):
    return re.sub(r"[^A-Za-z0-9_]", "_", s)


def _prune(parent, keep):
    try:
        ds = sorted((os.path.join(parent, d) for d in os.listdir(parent)), key=os.path.getmtime)
    except FileNotFoundError:
        return
    for d in ds[:-keep]:
        shutil.rmtree(d, ignore_errors=True)


def build(fam, archset="x86", extra_flags=(), main="main.cpp", with_scalar=True, compiler="g++", extra_srcs=(), link_flags=()):
    """Build harness binary for one family. archset: 'x86' (20 native architectures [+ scalar]) or 'emu'
    (emulated<128/256>, own binary because XSIMD_WITH_EMULATED changes generic kernels of the others)."""
    flags = BASE_FLAGS + list(extra_flags) + os.environ.get("VERIF_EXTRA_CXXFLAGS", "").split()   # e.g. --coverage (tools/coverage.py)
    link_flags = list(link_flags) + os.environ.get("VERIF_EXTRA_LDFLAGS", "").split()
    compiler = os.environ.get("VERIF_CXX", compiler)          # compiler flavour (e.g. clang++-14): the harness is header-only code + wrappers
    archs = list(X86_ARCHS) if archset == "x86" else list(EMU_ARCHS) if archset == "emu" else []
    if archset == "emu":
        flags = flags + ["-DXSIMD_WITH_EMULATED=1"]
    hh = hashlib.sha256()
    hh.update(repo_hash().encode())
    hh.update(_hash_tree(HARNESS, (".hpp", ".cpp", ".inc")).encode())
    hh.update(" ".join(flags + [compiler, fam, archset, str(with_scalar)] + list(extra_srcs) + list(link_flags) + [f for a in archs for f in a[3]]).encode())
    key = hh.hexdigest()[:16]
    parent = os.path.join(BUILD, "h", "%s_%s%s" % (slug(fam), archset, "_x" if os.environ.get("VERIF_EXTRA_CXXFLAGS") else ""))
    out = os.path.join(parent, key)
    exe = os.path.join(out, "vd")
    if os.path.exists(exe):
        os.utime(out)
        return exe
    os.makedirs(out, exist_ok=True)
    inc = ["-I" + os.path.join(REPO, "include"), "-I" + HARNESS]
    jobs = []
    for ai, (name, cxx, _, aflags) in enumerate(archs):
        o = os.path.join(out, slug(name) + ".o")
        jobs.append((o, [compiler] + flags + aflags + inc + ["-DVD_ARCH_ID=%d" % (ai + (100 if archset == "emu" else 0)),'-DVD_FAM="fam_%s.inc"' % fam, "-DVD_ARCH=" + cxx,
                                                   '-DVD_ARCH_NAME="%s"' % name, "-c",
                                                   os.path.join(HARNESS, "arch_tu.cpp"), "-o", o]))
    if with_scalar and archset == "x86":
        o = os.path.join(out, "scalar.o")
        jobs.append((o, [compiler] + flags + inc + ['-DVD_FAM="fam_%s.inc"' % fam, "-DVD_SCALAR", "-c",
                                                   os.path.join(HARNESS, "arch_tu.cpp"), "-o", o]))
    o = os.path.join(out, "main.o")
    jobs.append((o, [compiler] + flags + inc + ["-c", os.path.join(HARNESS, main), "-o", o]))
    for src in extra_srcs:
        o = os.path.join(out, slug(src) + ".o")
        jobs.append((o, [compiler] + flags + inc + ["-c", os.path.join(HARNESS, src), "-o", o]))

    def run(job):
        r = sh(job[1])
        return job, r

    errs = []
    with cf.ThreadPoolExecutor(NCPU) as ex:
        for job, r in ex.map(run, jobs):
            if r.returncode != 0:
                errs.append((job[0], r.stdout[-3000:]))
    if errs:
        shutil.rmtree(out, ignore_errors=True)
        raise InfraError("harness build failed (%s): %s\n%s" % (fam, errs[0][0], errs[0][1]))
    r = sh([compiler] + [j[0] for j in jobs] + list(link_flags) + ["-o", exe + ".tmp", "-lpthread"])
    if r.returncode != 0:
        shutil.rmtree(out, ignore_errors=True)
        raise InfraError("harness link failed: " + r.stdout[-3000:])
    os.replace(exe + ".tmp", exe)
    _prune(parent, 3)
    return exe


def build_single(src, tag, flags, compiler="g++"):
    """compile one harness source file to an executable, cached by content hash"""
    hh = hashlib.sha256()
    hh.update(repo_hash().encode())
    hh.update(_hash_tree(HARNESS, (".hpp", ".cpp", ".inc")).encode())
    flags = list(flags) + os.environ.get("VERIF_EXTRA_CXXFLAGS", "").split()
    hh.update(" ".join([compiler, src, tag] + list(flags)).encode())
    parent = os.path.join(BUILD, "h", "single_" + slug(tag))
    out = os.path.join(parent, hh.hexdigest()[:16])
    exe = os.path.join(out, "prog")
    if os.path.exists(exe):
        return exe
    os.makedirs(out, exist_ok=True)
    r = sh([compiler] + list(flags) + ["-w", "-D%s=1" % GUARD, "-I" + os.path.join(REPO, "include"), "-I" + HARNESS, os.path.join(HARNESS, src), "-o", exe + ".tmp"])
    if r.returncode != 0:
        shutil.rmtree(out, ignore_errors=True)
        raise InfraError("build of %s failed: %s" % (src, r.stdout[-3000:]))
    os.replace(exe + ".tmp", exe)
    _prune(parent, 2)
    return exe


def run_plan(exe, plan_path, out_path, watchdog_ms=0, timeout=3600, only=None):
    env = dict(os.environ)
    if only:
        env["VD_ONLY"] = ",".join(only)
    r = sh([exe, plan_path, out_path, str(watchdog_ms)], timeout=timeout, env=env)
    if r.returncode != 0:
        raise InfraError("harness run failed rc=%d: %s" % (r.returncode, r.stdout[-2000:]))
    return r.stdout


# ------------------------------------------------------------------------------------------------ TLC
TLC_JAR = "/opt/veriftools/tla/tla2tools.jar:/opt/veriftools/tla/CommunityModules-deps.jar"


def tlc_cmd(module, cfg, metadir, workers=1, xmx="2g", extra=()):
    # page faults are very expensive in this (micro-VM) sandbox: a small young generation that is reused beats the
    # default sizing by 5x in wall time and 50x in system time when 16 validators run in parallel
    gc = (["-XX:+UseSerialGC", "-Xmn48m", "-XX:CICompilerCount=2"] if workers == 1
          else ["-XX:+UseParallelGC", "-XX:ParallelGCThreads=4", "-Xmn512m"])
    return ["java"] + gc + ["-XX:-UsePerfData", "-Xmx" + xmx, "-Xss64m",
            "-cp", TLC_JAR, "tlc2.TLC", "-workers", str(workers), "-metadir", metadir, "-noGenerateSpecTE",
            "-checkpoint", "0",      # no checkpoints: TLC cannot checkpoint a behaviour of 65536 or more states (a long trace) and dies trying
            "-config", cfg] + list(extra) + [module]


_STATES_RE = re.compile(r"(\d+) states generated, (\d+) distinct states found")


def tlc_model(module, cfg=None, workers=NCPU, xmx="8g", timeout=3000, extra=(), env=None):
    """Model-check a design-level specification. Returns dict(ok, generated, distinct, out)."""
    cfg = cfg or module.replace(".tla", ".cfg")
    md = os.path.join(BUILD, "tlc", "m_%s_%d" % (slug(os.path.basename(cfg)), os.getpid()))
    shutil.rmtree(md, ignore_errors=True)
    os.makedirs(md, exist_ok=True)
    e = dict(os.environ)
    if env:
        e.update(env)
    t0 = time.time()
    try:
        r = sh(tlc_cmd(module, cfg, md, workers, xmx, extra), cwd=SPEC, timeout=timeout, env=e)
        out, rc = r.stdout, r.returncode
    except subprocess.TimeoutExpired as ex:
        so = ex.stdout or ""
        out, rc = (so.decode("utf-8", "replace") if isinstance(so, bytes) else so) + "\nTIMEOUT", 124
    shutil.rmtree(md, ignore_errors=True)
    m = _STATES_RE.findall(out)
    gen, dist = (int(m[-1][0]), int(m[-1][1])) if m else (0, 0)
    ok = rc == 0 and "Model checking completed. No error has been found." in out
    return dict(ok=ok, rc=rc, generated=gen, distinct=dist, out=out, wall=time.time() - t0, cfg=os.path.basename(cfg))


_REJ_RE = re.compile(r'^"REJECT (.*)"$')
_STAT_RE = re.compile(r'^"STATS (.*)"$')


def _kv(s):
    d = {}
    for m in re.finditer(r'(\w+)=((?:<<.*?>>|\{.*?\}|\S+))(?=\s+\w+=|$)', s):
        d[m.group(1)] = m.group(2).replace('\\"', '"')
    return d


def split_file(path, n, outdir, prefix):
    with open(path) as f:
        lines = f.readlines()
    n = max(1, min(n, (len(lines) + 199) // 200))
    n = max(n, (len(lines) + 49999) // 50000)          # a trace is one behaviour: keep it well below TLC's limit of 65535 states
    per = (len(lines) + n - 1) // n if lines else 1
    outs = []
    for i in range(n):
        chunk = lines[i * per:(i + 1) * per]
        if not chunk:
            continue
        p = os.path.join(outdir, "%s.%03d.ndjson" % (prefix, i))
        with open(p, "w") as f:
            f.writelines(chunk)
        outs.append(p)
    return outs, len(lines)


def apalache_check(module, init, inv, length, timeout=900):
    """apalache-mc check (symbolic, unbounded integers): returns dict(ok, wall, out).  Used for inductive-invariant obligations."""
    od = os.path.join(BUILD, "apalache", "%s_%s_%d" % (slug(module), slug(init), os.getpid()))
    shutil.rmtree(od, ignore_errors=True)
    os.makedirs(od, exist_ok=True)
    t0 = time.time()
    try:
        r = sh(["apalache-mc", "check", "--init=" + init, "--inv=" + inv, "--length=%d" % length, "--out-dir=" + od, module],
               cwd=os.path.join(SPEC, "apalache"), timeout=timeout)
        out, rc = r.stdout, r.returncode
    except subprocess.TimeoutExpired:
        out, rc = "TIMEOUT", 124
    shutil.rmtree(od, ignore_errors=True)
    return dict(ok=(rc == 0 and "The outcome is: NoError" in out), wall=time.time() - t0, out=out[-2000:], rc=rc)


def tlc_validate(module, traces, cfg=None, timeout=1500, xmx="3g", env_extra=None):
    """Validate trace files (ndjson) against a trace specification, one TLC process per file, in parallel.
    Returns (rejects, stats, errors). A TLC process that fails for another reason than a rejection is an
    infrastructure error."""
    cfg = cfg or module.replace(".tla", ".cfg")
    rejects, stats, errors = [], [], []

    def one(tr):
        md = os.path.join(BUILD, "tlc", "t_%s_%d_%s" % (slug(module), os.getpid(), slug(os.path.basename(tr))))
        shutil.rmtree(md, ignore_errors=True)
        os.makedirs(md, exist_ok=True)
        e = dict(os.environ)
        e["TRACE"] = tr
        if env_extra:
            e.update(env_extra)
        try:
            r = sh(tlc_cmd(module, cfg, md, 1, xmx), cwd=SPEC, timeout=timeout, env=e)
            out, rc = r.stdout, r.returncode
        except subprocess.TimeoutExpired as ex:
            so = ex.stdout or ""
            out, rc = (so.decode("utf-8", "replace") if isinstance(so, bytes) else so) + "\nTIMEOUT", 124
        shutil.rmtree(md, ignore_errors=True)
        return tr, rc, out

    with cf.ThreadPoolExecutor(NCPU) as ex:
        for tr, rc, out in ex.map(one, traces):
            st = None
            for line in out.splitlines():
                m = _REJ_RE.match(line.strip())
                if m:
                    d = _kv(m.group(1))
                    d["trace"] = tr
                    rejects.append(d)
                m = _STAT_RE.match(line.strip())
                if m:
                    st = {k: int(v) for k, v in _kv(m.group(1)).items() if re.fullmatch(r"-?\d+", v)}
            if st is None or rc != 0 or st.get("consumed") != st.get("events"):
                errors.append((tr, rc, out[-3000:]))
            else:
                st["_trace"] = tr
                stats.append(st)
    return rejects, stats, errors


# ------------------------------------------------------------------------------------------- plans
def hexrow(b):
    return bytes(b).hex()


def pack_lanes(vals, nbytes):
    """little-endian packing of integers (any sign) into lanes of nbytes"""
    out = bytearray()
    mask = (1 << (8 * nbytes)) - 1
    for v in vals:
        out += (v & mask).to_bytes(nbytes, "little")
    return out


def int_lattice(bits, extra=()):
    s = {0, 1, 2, 3, 5, 7, 10}
    for k in range(1, bits + 1):
        for d in (-1, 0, 1):
            s.add((1 << k) + d)
    m = (1 << bits) - 1
    for p in (0x55, 0xAA, 0x80, 0x7F, 0x0F, 0xF0, 0x01, 0xFE):
        v = 0
        for i in range(bits // 8):
            v |= p << (8 * i)
        s.add(v)
    s |= {m, m - 1, m - 2, (1 << (bits - 1)) - 2}
    s |= set(extra)
    return sorted({v & m for v in s})


def float_lattice(bits, rng=None, nrand=0):
    """bit patterns of an IEEE binary32/64 special-value lattice (+ optional random bit patterns)"""
    E, M = (8, 23) if bits == 32 else (11, 52)
    bias = (1 << (E - 1)) - 1
    emax = (1 << E) - 1
    sign = 1 << (bits - 1)

    def mk(e, m):
        return (e << M) | m
    pos = {mk(0, 0), mk(0, 1), mk(0, 2), mk(0, (1 << M) - 1), mk(0, 1 << (M - 1)), mk(1, 0), mk(1, 1), mk(2, 0),
           mk(bias, 0), mk(bias, 1), mk(bias - 1, (1 << M) - 1), mk(bias - 1, 0), mk(bias + 1, 0), mk(bias + 1, 1 << (M - 1)),
           mk(bias, 1 << (M - 1)), mk(bias + M, 0), mk(bias + M, 1), mk(bias + M + 1, 0), mk(bias + M - 1, (1 << M) - 1),
           mk(bias + 31, 0), mk(bias + 63, 0), mk(bias - M, 0), mk(bias - 1 - M, 0),
           mk(emax - 1, (1 << M) - 1), mk(emax - 1, 0), mk(emax - 2, (1 << M) - 1), mk(emax, 0),
           mk(emax, 1 << (M - 1)), mk(emax, 1), mk(emax, (1 << (M - 1)) | 0x1234), mk(emax, (1 << M) - 1),
           mk(bias + 1, (1 << (M - 1)) | (1 << (M - 2))), mk(bias - 2, 0x55555555555555 & ((1 << M) - 1)),
           mk(bias + 3, 0x2AAAAAAAAAAAAA & ((1 << M) - 1))}
    out = sorted(pos) + sorted(p | sign for p in pos)
    if rng is not None:
        out += [rng.getrandbits(bits) for _ in range(nrand)]
    return out


def rows_from(cols, nbytes, shifts=(0,), fill=None):
    """cols: list of tuples (one value per operand). Returns list of tuples of hex rows, lane-packed, the list
    replayed once per shift so that every tuple visits different lane positions."""
    L = 64 // nbytes
    k = len(cols[0]) if cols else 0
    rows = []
    for s in shifts:
        seq = cols[-s:] + cols[:-s] if s else cols
        for i in range(0, len(seq), L):
            chunk = list(seq[i:i + L])
            while len(chunk) < L:
                chunk.append(fill if fill is not None else seq[(i + len(chunk)) % len(seq)])
            rows.append(tuple(hexrow(pack_lanes([c[j] for c in chunk], nbytes)) for j in range(k)))
    return rows


# --------------------------------------------------------------------------------------- check runner
class Ctx:
    def __init__(self, prop, level, argv=None):
        self.prop = prop
        self.level = level
        self.t0 = time.time()
        self.tier = os.environ.get("VERIF_TIER", "quick")
        self.seed = int(os.environ.get("VERIF_SEED", "0") or 0)
        self.replay = None
        argv = list(sys.argv[1:] if argv is None else argv)
        while argv:
            a = argv.pop(0)
            if a == "--tier":
                self.tier = argv.pop(0)
            elif a == "--replay":
                self.replay = argv.pop(0)
            elif a == "--seed":
                self.seed = int(argv.pop(0))
        if self.tier not in ("quick", "thorough"):
            self.tier = "quick"
        self.rng = random.Random(self.seed * 7919 + sum(map(ord, prop)))
        self.work = os.path.join(BUILD, "w", "%s_%d" % (prop, os.getpid()))
        shutil.rmtree(self.work, ignore_errors=True)
        os.makedirs(self.work, exist_ok=True)
        os.makedirs(os.path.join(BUILD, "tlc"), exist_ok=True)
        self.cov = dict(states=0, transitions=0, traces_validated_against_impl=0, evaluations=0,
                        distinct_nontrivial=0, samples=[], model_runs=[], trace_families={})
        self.assumptions = [
            "host CPU executes all 20 x86 architectures sse2..avx512vnni<avx512vbmi2>; NEON/SVE/RVV/WASM kernels are not executable here",
            "harness compiled with g++ 12 -std=c++17 -O2 -DNDEBUG and per-architecture minimal -m flags -D%s=1 from /repo's working tree (hash %s)" % (GUARD, repo_hash()[:12]),
            "TLC 1.8.0 and the CommunityModules Json/IOUtils overrides are trusted; the C++ harness only records, TLC judges",
        ]
        self.violations = []   # (description, replay payload lines)
        self.known_hits = {}
        self.quick = self.tier == "quick"

    def q(self, quick, thorough):
        return quick if self.quick else thorough

    def log(self, *a):
        print("[%s %6.1fs]" % (self.prop, time.time() - self.t0), *a, flush=True)

    # -- design-level model checking
    def model(self, module, cfg=None, **kw):
        r = tlc_model(module, cfg, **kw)
        self.cov["model_runs"].append(dict(cfg=r["cfg"], ok=r["ok"], generated=r["generated"], distinct=r["distinct"],
                                           wall_s=round(r["wall"], 1)))
        self.cov["states"] += r["distinct"]
        self.cov["transitions"] += r["generated"]
        self.log("model %s: ok=%s distinct=%d generated=%d %.1fs" % (r["cfg"], r["ok"], r["distinct"], r["generated"], r["wall"]))
        if not r["ok"]:
            if r["rc"] in (124,) or "TIMEOUT" in r["out"][-200:]:
                raise InfraError("TLC timed out on %s" % r["cfg"])
            if not re.search(r"(Invariant .* is violated|Temporal properties were violated|Deadlock reached|is violated|Evaluating assumption|Assumption .* is false)", r["out"]):
                raise InfraError("TLC failed on %s:\n%s" % (r["cfg"], r["out"][-3000:]))
            p = self.write_replay("model-" + slug(r["cfg"]), [r["out"][-6000:]])
            self.violations.append(("design-level model %s violated" % r["cfg"], p))
        return r

    def write_replay(self, tag, lines):
        d = os.path.join(OUTROOT, "replays")
        os.makedirs(d, exist_ok=True)
        p = os.path.join(d, "%s-%s.ndjson" % (self.prop, tag))
        with open(p, "w") as f:
            for ln in lines:
                f.write(ln if ln.endswith("\n") else ln + "\n")
        return p

    # -- finish
    def finish(self, exhaustive=False, rule="", extra=None):
        known = load_known(self.prop)
        cov = self.cov
        cov["exhaustive"] = bool(exhaustive)
        cov["rule"] = rule
        if extra:
            cov.update(extra)
        if not cov["samples"]:
            cov["samples"] = ["(no sample recorded)"]
        cov["samples"] = cov["samples"][:12]
        cov["known_findings_hit"] = {k: v for k, v in self.known_hits.items()}
        ev = dict(property_id=self.prop, tier=self.tier, seed=self.seed, level=self.level, coverage=cov,
                  assumptions=self.assumptions, wall_s=round(time.time() - self.t0, 1), violations=len(self.violations))
        os.makedirs(os.path.join(OUTROOT, "evidence"), exist_ok=True)
        with open(os.path.join(OUTROOT, "evidence", self.prop + ".json"), "w") as f:
            json.dump(ev, f, indent=1, sort_keys=True)
            f.write("\n")
        for k in known:
            if k.get("status") == "known" and self.known_hits.get(k["id"]):
                print("KNOWN-FINDING: property=%s %s (%d rejected events match %s)" % (self.prop, k["summary"], self.known_hits[k["id"]], k["id"]))
        for desc, path in self.violations[:40]:
            print("VIOLATION property=%s replay=%s   # %s" % (self.prop, path, desc))
        shutil.rmtree(self.work, ignore_errors=True)
        self.log("done: %d violation(s), wall %.1fs" % (len(self.violations), time.time() - self.t0))
        return 1 if self.violations else 0


def load_known(prop):
    p = os.path.join(VERIF, "known_findings.json")
    if not os.path.exists(p):
        return []
    with open(p) as f:
        return [k for k in json.load(f).get("findings", []) if k.get("property") == prop]


def run_check(prop, level, body):
    ctx = Ctx(prop, level)
    try:
        res = body(ctx)
        rc = ctx.finish(**(res or {}))
    except InfraError as e:
        print("ERROR property=%s infrastructure: %s" % (prop, e), file=sys.stderr)
        shutil.rmtree(ctx.work, ignore_errors=True)
        sys.exit(2)
    sys.exit(rc)
