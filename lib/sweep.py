"""Selector sweeps (harness/sweep.hpp): run an entry point of the harness over a huge regular argument set in 16 processes, merge
the per-binade best rows and hand them back as rows of bit patterns.  Nothing is judged here: the rows are appended to the plan of
the calling check, executed again on every architecture and judged by TLC."""
import concurrent.futures as cf
import json
import os
import subprocess

import vf

BIG = 1e29


def job(kind, op, typ, arch, mode, ref="-", stride=64, seed=0, lo=0, hi=None, signs="+-"):
    if hi is None:
        hi = 0x7FFFFFFF if typ not in ("f64", "i64", "u64") else 0x7FEFFFFFFFFFFFFF
    return "%s %s %s %s %s %s %d %d %x %x %s" % (kind, op, typ, arch, mode, ref, stride, seed, lo, hi, signs)


def run(ctx, fam, jobs, tag, archset="x86", keep=24, timeout=7200):
    """jobs: spec lines (job()).  Returns (rows, info): rows = list of dict(op, t, kind, mode, arch, lanes=[bit patterns], score, stuck)
    - for every (op, t, mode) the best row of each binade over all architectures and shards, cut to the `keep` highest scores
    (rows with a gross score - NaN/inf/sign disagreement, stuck call - are always kept, up to 4*keep)."""
    exe = vf.build(fam, archset)
    spec = os.path.join(ctx.work, tag + ".sweep")
    with open(spec, "w") as f:
        f.write("\n".join(jobs) + "\n")
    n = vf.NCPU

    def one(i):
        out = os.path.join(ctx.work, "%s.sweep.%d.json" % (tag, i))
        r = subprocess.run([exe, "--sweep", spec, out, str(i), str(n)], stdout=subprocess.PIPE, stderr=subprocess.STDOUT, text=True, timeout=timeout)
        if r.returncode != 0:
            raise vf.InfraError("sweep shard %d failed rc=%d: %s" % (i, r.returncode, r.stdout[-500:]))
        recs = [json.loads(l) for l in open(out)]
        os.remove(out)
        return recs
    with cf.ThreadPoolExecutor(n) as ex:
        allrecs = [r for recs in ex.map(one, range(n)) for r in recs]
    os.remove(spec)
    best = {}
    swept = {}
    stuck = 0
    for r in allrecs:
        if r.get("summary"):
            k = (r["op"], r["t"], r["mode"], r["arch"])
            swept[k] = swept.get(k, 0) + r["swept"]
            stuck += r["stuck"]
            continue
        k = (r["op"], r["t"], r["mode"], r["bucket"])
        if k not in best or r["score"] > best[k]["score"]:
            best[k] = r
    per = {}
    for (op, t, mode, _b), r in best.items():
        per.setdefault((op, t, mode), []).append(r)
    rows = []
    maxscore = {}
    for (op, t, mode), lst in sorted(per.items()):
        lst.sort(key=lambda r: (-r["score"], r["base"]))
        gross = [r for r in lst if r["score"] >= BIG][: 4 * keep]
        fine = [r for r in lst if r["score"] < BIG][:keep]
        if fine:
            maxscore["%s/%s/%s" % (op, t, mode)] = round(fine[0]["score"], 3)
        for r in gross + fine:
            bits = 64 if t in ("f64", "i64", "u64") else 32
            m = (1 << bits) - 1
            base, step, nl = int(r["base"], 16), int(r["step"], 16), r["nl"]
            rows.append(dict(op=op, t=t, kind=r["kind"], mode=mode, arch=r["arch"], lanes=[(base + i * step) & m for i in range(nl)],
                             score=r["score"], stuck=bool(r["stuck"]), lane=r["lane"]))
    info = dict(jobs=len(jobs), arguments_swept=sum(swept.values()), rows_selected=len(rows), stuck_rows=stuck,
                gross_rows=sum(1 for r in rows if r["score"] >= BIG), max_score=maxscore,
                archs=sorted({k[3] for k in swept}), note="selector only: every selected row is re-executed by the plan interpreter on all architectures and judged by TLC")
    ctx.cov.setdefault("selector_sweep", {})[tag] = info
    ctx.log("sweep %s: %d jobs, %.3g arguments, %d rows selected (%d gross, %d stuck)" % (tag, len(jobs), info["arguments_swept"], len(rows), info["gross_rows"], stuck))
    return rows, info


def hexrow(row, nb):
    """64-byte operand row from the lanes of a selected row (cyclic fill, as the sweep itself filled it)"""
    L = 64 // nb
    lanes = [row["lanes"][i % len(row["lanes"])] for i in range(L)]
    return vf.hexrow(vf.pack_lanes(lanes, nb))
