"""Straight-line programs over live batch variables (spec/Prog.tla, spec/T_Prog.tla, harness/fam_prog.inc).

The instruction table ProgOps of spec/Prog.tla is the single source of truth: the opcode of an instruction is its index in that
sequence; this module reads the table, generates the C++ switch of the interpreter from it (one statement per instruction name,
CXX below) and generates seeded random programs of one flavour (= the property whose lane relation judges every instruction)."""
import hashlib
import os
import re

import vf
import lanes

# C++ statement of every instruction name; R[] are batch<T, A> variables, M[] batch_bool<T, A> variables.
# {I} restricts an instruction to integer element types, {F} to floating point, {U} to unsigned integers (if constexpr).
CXX = {
    "id": "R[d] = R[a];",
    "add": "R[d] = xsimd::add(R[a], R[b]);", "sub": "R[d] = xsimd::sub(R[a], R[b]);", "mul": "R[d] = xsimd::mul(R[a], R[b]);",
    "neg": "R[d] = xsimd::neg(R[a]);", "abs": "R[d] = xsimd::abs(R[a]);",
    "min": "R[d] = xsimd::min(R[a], R[b]);", "max": "R[d] = xsimd::max(R[a], R[b]);",
    "incr": "{I} R[d] = xsimd::incr(R[a]);", "decr": "{I} R[d] = xsimd::decr(R[a]);",
    "incr_if": "{I} R[d] = xsimd::incr_if(R[a], M[mb]);", "decr_if": "{I} R[d] = xsimd::decr_if(R[a], M[mb]);",
    "sadd": "{I} R[d] = xsimd::sadd(R[a], R[b]);", "ssub": "{I} R[d] = xsimd::ssub(R[a], R[b]);",
    "avg": "{I} R[d] = xsimd::avg(R[a], R[b]);", "avgr": "{I} R[d] = xsimd::avgr(R[a], R[b]);",
    "sign": "{I} R[d] = xsimd::sign(R[a]);",
    "fma": "R[d] = xsimd::fma(R[a], R[b], R[c]);", "fms": "R[d] = xsimd::fms(R[a], R[b], R[c]);",
    "fnma": "R[d] = xsimd::fnma(R[a], R[b], R[c]);", "fnms": "R[d] = xsimd::fnms(R[a], R[b], R[c]);",
    "op+=": "R[d] += R[a];", "op-=": "R[d] -= R[a];", "op*=": "R[d] *= R[a];", "op++": "++R[d];", "op--": "--R[d];",
    "div": "{F} R[d] = xsimd::div(R[a], R[b]);", "sqrt": "{F} R[d] = xsimd::sqrt(R[a]);",
    "copysign": "{F} R[d] = xsimd::copysign(R[a], R[b]);", "op/=": "{F} R[d] /= R[a];",
    "and": "R[d] = xsimd::bitwise_and(R[a], R[b]);", "or": "R[d] = xsimd::bitwise_or(R[a], R[b]);",
    "xor": "R[d] = xsimd::bitwise_xor(R[a], R[b]);", "not": "R[d] = xsimd::bitwise_not(R[a]);",
    "andnot": "R[d] = xsimd::bitwise_andnot(R[a], R[b]);",
    "shl": "{I} R[d] = xsimd::bitwise_lshift(R[a], imm);", "shr": "{I} R[d] = xsimd::bitwise_rshift(R[a], imm);",
    "rotl": "{U} R[d] = xsimd::rotl(R[a], imm);", "rotr": "{U} R[d] = xsimd::rotr(R[a], imm);",
    "op&=": "{I} R[d] &= R[a];", "op|=": "{I} R[d] |= R[a];", "op^=": "{I} R[d] ^= R[a];",
    "op<<=": "{I} R[d] <<= imm;", "op>>=": "{I} R[d] >>= imm;",
    "eq": "M[md] = xsimd::eq(R[a], R[b]); value_dest = false;", "neq": "M[md] = xsimd::neq(R[a], R[b]); value_dest = false;",
    "lt": "M[md] = xsimd::lt(R[a], R[b]); value_dest = false;", "le": "M[md] = xsimd::le(R[a], R[b]); value_dest = false;",
    "gt": "M[md] = xsimd::gt(R[a], R[b]); value_dest = false;", "ge": "M[md] = xsimd::ge(R[a], R[b]); value_dest = false;",
    "select": "R[d] = xsimd::select(M[mc], R[a], R[b]);",
    "m_and": "M[md] = M[ma] & M[mb]; value_dest = false;", "m_or": "M[md] = M[ma] | M[mb]; value_dest = false;",
    "m_xor": "M[md] = M[ma] ^ M[mb]; value_dest = false;", "m_andnot": "M[md] = xsimd::bitwise_andnot(M[ma], M[mb]); value_dest = false;",
    "m_eq": "M[md] = (M[ma] == M[mb]); value_dest = false;", "m_neq": "M[md] = (M[ma] != M[mb]); value_dest = false;",
    "m_not": "M[md] = ~M[ma]; value_dest = false;", "m_lnot": "M[md] = !M[ma]; value_dest = false;",
    "m_and=": "M[md] &= M[ma]; value_dest = false;", "m_or=": "M[md] |= M[ma]; value_dest = false;", "m_xor=": "M[md] ^= M[ma]; value_dest = false;",
    "m_id": "M[md] = M[ma]; value_dest = false;",
}
ITYPES = [("i8", 1, True), ("u8", 1, False), ("i16", 2, True), ("u16", 2, False), ("i32", 4, True), ("u32", 4, False), ("i64", 8, True), ("u64", 8, False)]
FTYPES = [("f32", 4, True), ("f64", 8, True)]


def table():
    """ProgOps of spec/Prog.tla as a list of dicts (index + 1 = opcode)"""
    src = open(os.path.join(vf.SPEC, "Prog.tla")).read()
    body = src[src.index("ProgOps == <<"):]
    body = body[:body.index(">>\n")]
    ops = []
    for m in re.finditer(r'\[n \|-> "([^"]+)",\s*cls \|-> "(\w+)",\s*fl \|-> \{([^}]*)\},\s*k \|-> \{([^}]*)\}\]', body):
        ops.append(dict(n=m.group(1), cls=m.group(2), fl=set(re.findall(r'"(\w+)"', m.group(3))), k=set(re.findall(r'"(\w+)"', m.group(4)))))
    if not ops or any(o["n"] not in CXX for o in ops):
        raise vf.InfraError("spec/Prog.tla: ProgOps unreadable or an instruction without a C++ statement: %s" % [o["n"] for o in ops if o["n"] not in CXX])
    return ops


def gen_dir():
    ops = table()
    lines = []
    for i, o in enumerate(ops):
        st = CXX[o["n"]]
        guard = None
        for tag, cond in (("{I}", "std::is_integral<T>::value"), ("{F}", "std::is_floating_point<T>::value"), ("{U}", "std::is_unsigned<T>::value")):
            if st.startswith(tag):
                st, guard = st[len(tag):].strip(), cond
        fls = " || ".join("FL == %d" % int(f[1:]) for f in sorted(o["fl"]))
        cond = "(%s)" % fls + (" && " + guard if guard else "")
        lines.append("            case %d: /* %s */ if constexpr (%s) { %s } break;" % (i + 1, o["n"], cond, st))
    text = "\n".join(lines) + "\n"
    d = os.path.join(vf.BUILD, "gen", "prog_" + hashlib.sha256(text.encode()).hexdigest()[:16])
    os.makedirs(d, exist_ok=True)
    p = os.path.join(d, "gen_prog.inc")
    if not os.path.exists(p):
        with open(p, "w") as f:
            f.write(text)
    return d


def _kind_ok(o, t, signed):
    isint = t[0] in "iu"
    if "uint" in o["k"] and not ({"int"} & o["k"]):
        return isint and not signed
    return ("int" in o["k"] and isint) or ("float" in o["k"] and not isint)


def programs(ctx, flavour, types, nprog, nins):
    """seeded random programs: plan lines 'prog <flavour> <type> 0 <R0> <R1> <R2> <program>'"""
    ops = table()
    rng = ctx.rng
    plan = []
    for t, nb, signed in types:
        bits = 8 * nb
        cand = [(i + 1, o) for i, o in enumerate(ops) if flavour in o["fl"] and _kind_ok(o, t, signed)]
        isint = t[0] in "iu"
        lat = vf.int_lattice(bits) if isint else vf.float_lattice(bits)
        L = 64 // nb
        for p in range(nprog):
            rows = []
            for _ in range(3):
                vals = [rng.choice(lat) if rng.random() < 0.6 else rng.getrandbits(bits) for _ in range(L)]
                if not isint and rng.random() < 0.5:
                    # moderate magnitudes keep a float program out of inf/NaN for a while
                    E, Mb = (8, 23) if bits == 32 else (11, 52)
                    bias = (1 << (E - 1)) - 1
                    vals = [(rng.getrandbits(1) << (bits - 1)) | ((bias + rng.randint(-6, 6)) << Mb) | rng.getrandbits(Mb) for _ in range(L)]
                rows.append(vf.hexrow(vf.pack_lanes(vals, nb)))
            prog = bytearray([0])
            for _ in range(nins):
                opc, o = rng.choice(cand)
                imm = rng.randrange(bits) if o["cls"] in ("ewi", "cewi") else 0
                prog += bytes([opc, rng.randrange(4), rng.randrange(4), rng.randrange(4), rng.randrange(4), imm])
            plan.append("prog %s %s 0 %s %s %s %s" % (flavour, t, rows[0], rows[1], rows[2], prog.hex()))
    return plan


def aliasing_programs(ctx, flavour, types, regs):
    """every instruction of the flavour with EVERY assignment of its register fields (d, a, b, c) over `regs` - all patterns of
    destination/operand aliasing (x = f(x, x), x op= x, select(m, x, x) ...), packed 40 instructions to a program"""
    ops = table()
    rng = ctx.rng
    plan = []
    for t, nb, signed in types:
        bits = 8 * nb
        isint = t[0] in "iu"
        lat = vf.int_lattice(bits) if isint else vf.float_lattice(bits)
        L = 64 // nb
        ins = []
        for i, o in enumerate(ops):
            if flavour not in o["fl"] or not _kind_ok(o, t, signed):
                continue
            nf = {"mov": 2, "ew1": 2, "cew1": 1, "cewi": 1, "ewi": 2, "ew2": 3, "ewm": 3, "cew2": 2, "cmp": 3, "mm2": 3, "mm1": 2, "mmov": 2, "cmm2": 2, "ew3": 4, "sel": 4}[o["cls"]]
            import itertools
            for combo in itertools.product(regs, repeat=nf):
                f = list(combo) + [rng.choice(regs) for _ in range(4 - nf)]
                if o["cls"] == "sel":          # d, a, b, c(mask)
                    pass
                imm = rng.randrange(bits) if o["cls"] in ("ewi", "cewi") else 0
                ins.append(bytes([i + 1, f[0], f[1], f[2], f[3], imm]))
        rng.shuffle(ins)
        for k in range(0, len(ins), 40):
            rows = [vf.hexrow(vf.pack_lanes([rng.choice(lat) if rng.random() < 0.5 else rng.getrandbits(bits) for _ in range(L)], nb)) for _ in range(3)]
            plan.append("prog %s %s 0 %s %s %s %s" % (flavour, t, rows[0], rows[1], rows[2], (b"\0" + b"".join(ins[k:k + 40])).hex()))
    return plan


def tlc_programs(ctx, flavour, types, num, depth):
    """spec -> impl: programs GENERATED BY TLC from spec/ProgGen.tla (simulation mode over the instruction language of the flavour), one run per
    element kind; every program is executed for every element type of that kind on fresh seeded operand rows"""
    import json
    import shutil
    rng = ctx.rng
    plan = []
    kinds = {}
    for t, nb, signed in types:
        k = "float" if t[0] == "f" else ("int" if signed else "uint")
        kinds.setdefault(k, []).append((t, nb))
    for kind, ts in sorted(kinds.items()):
        cfg = os.path.join(ctx.work, "ProgGen_%s_%s.cfg" % (flavour, kind))
        with open(cfg, "w") as f:
            f.write('CONSTANTS Flavour = "%s"\n Kind = "%s"\n Depth = %d\n Regs = {0, 1, 2, 3}\n Imms = {0, 1, 3, 7}\nINIT Init\nNEXT Next\nCHECK_DEADLOCK FALSE\n' % (flavour, kind, depth))
        md = os.path.join(vf.BUILD, "tlc", "proggen_%s_%s_%d" % (flavour, kind, os.getpid()))
        cmd = vf.tlc_cmd("ProgGen.tla", cfg, md, 1, "2g", extra=("-simulate", "num=%d" % num, "-depth", str(depth + 2), "-seed", str(ctx.seed * 131 + 17)))
        r = vf.sh(cmd, cwd=vf.SPEC, timeout=900)
        shutil.rmtree(md, ignore_errors=True)
        progs = [json.loads(json.loads(ln)[5:]) for ln in r.stdout.splitlines() if ln.startswith('"PROG ')]
        if not progs:
            raise vf.InfraError("ProgGen produced no program for %s/%s (rc=%d)\n%s" % (flavour, kind, r.returncode, r.stdout[-1500:]))
        ctx.cov.setdefault("tlc_generated_programs", {})["%s/%s" % (flavour, kind)] = len(progs)
        for t, nb in ts:
            bits = 8 * nb
            lat = vf.int_lattice(bits) if t[0] in "iu" else vf.float_lattice(bits)
            L = 64 // nb
            for pr in progs:
                rows = [vf.hexrow(vf.pack_lanes([rng.choice(lat) if rng.random() < 0.5 else rng.getrandbits(bits) for _ in range(L)], nb)) for _ in range(3)]
                body = bytes([0]) + b"".join(bytes([i[0], i[1], i[2], i[3], i[4], i[5] % bits]) for i in pr)
                plan.append("prog %s %s 0 %s %s %s %s" % (flavour, t, rows[0], rows[1], rows[2], body.hex()))
    return plan


def corrupt(e, rng):
    """binding probe: one bit of the row written by one instruction is flipped (Boolean rows: one lane entry)"""
    r = e.get("r")
    if e.get("k") != "prog" or not r:
        return None
    nb = {"8": 1, "16": 2, "32": 4, "64": 8}[e["t"][1:]]
    ops = table()
    j = rng.randrange(len(r) // 64)
    opc = e["d"][1 + 6 * j]
    c = dict(e)
    r = list(r)
    if ops[opc - 1]["cls"] in ("cmp", "mm2", "mm1", "mmov", "cmm2"):
        r[64 * j + rng.randrange(64 // nb)] ^= 1
    else:
        r[64 * j + rng.randrange(64)] ^= 1 << rng.randrange(8)
    c["r"] = r
    c["id"] = rng.getrandbits(30)          # several events (architecture groups) share a plan line: the probe counts rejected ids
    return c


def run(ctx, flavour, types, nprog, nins, tag=None):
    """generate, execute on every architecture, validate with T_Prog (the machine's own registers feed every step)"""
    tag = tag or ("prog_" + flavour)
    plan = lanes.replay_plan(ctx.replay) if ctx.replay else (programs(ctx, flavour, types, nprog, nins)
                                                               + aliasing_programs(ctx, flavour, types, ctx.q((0, 1), (0, 1, 2)))
                                                               + tlc_programs(ctx, flavour, types, ctx.q(12, 120), ctx.q(16, 40)))
    plan = [ln for ln in plan if ln.startswith("prog ")]
    if not plan:
        return
    events, plan = lanes.record(ctx, "prog", plan, tag, extra_flags=("-I" + gen_dir(),))
    ctx.log("%s: %d programs, %d events" % (tag, len(plan), len(events)))
    lanes.validate(ctx, "T_Prog.tla", events, tag, plan_lines=plan, corrupt=corrupt)
    ctx.cov.setdefault("program_machine", {})[tag] = dict(programs=len(plan), instructions=sum((len(e["d"]) - 1) // 6 for e in events), events=len(events))
