#!/bin/bash
# confirm: the pinned suite passes with all changes of a group applied together
WT=/tmp/wt/s_aa
declare -A G
G[1]="C01 C07 C13 C17"; G[2]="C02 C06 C08 C09"; G[3]="C03 C04 C05 C19"; G[4]="C10 C11 C12 C16"; G[5]="C14 C15 C18 C20"
for g in 1 2 3 4 5; do
  git -C $WT reset -q --hard; git -C $WT clean -qfd -e _build
  ok=1
  for p in ${G[$g]}; do for d in /tmp/seed4/out/R4-$p-*; do git -C $WT apply $d/patch.diff || { echo "group $g: $d does not apply together"; ok=0; }; done; done
  ( cd $WT && cmake -G Ninja -B _build -DBUILD_TESTS=ON -DCMAKE_BUILD_TYPE=RelWithDebInfo -DCMAKE_CXX_FLAGS=-Wno-error -DTARGET_ARCH=native -DXSIMD_ENABLE_WERROR=OFF . >/dev/null && cmake --build _build -j10 2>&1 | tail -1 && ./_build/test/test_xsimd | tail -2 ) > /tmp/seed4/suite_g$g.log 2>&1
  echo "group $g applied_all=$ok $(tail -2 /tmp/seed4/suite_g$g.log | tr '\n' ' ')"
done
git -C $WT reset -q --hard
