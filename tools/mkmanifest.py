#!/usr/bin/env python3
"""Regenerates /verif/MANIFEST.json from the table below (single source of truth for what is claimed)."""
import json, os
V = os.path.dirname(os.path.dirname(os.path.abspath(__file__)))
TRUST = ("TLC 1.8.0 + CommunityModules Json/IOUtils; the C++ harness (records only, never judges); g++ 12 -O2 with per-architecture minimal -m flags; "
         "one host micro-architecture executes all 20 x86 ISAs + emulated<128/256> + scalar overloads; NEON/SVE/RVV/WASM not executable")
CHECKS = {
 "C01": dict(level="exploration", ref="6 C01", tech="TLA+ lane semantics (BvLane=IntLane model-checked exhaustively at W=8) + TLC trace validation of recorded xsimd results on all ISAs",
   text="TLC checks BvLane == IntLane (definitional two's-complement semantics) on every 8-bit operand pair, then judges every lane of traces recorded from the real kernels of 22 architectures + scalar overloads (Lattice^2 + random operands, all 8 integer types, every op incl. masked, fma family, divmod by characterisation) against that semantics. Sampled over operand values for 16/32/64-bit lanes, hence exploration."),
 "C07": dict(level="exploration", ref="6 C07", tech="TLA+ bit-vector lane semantics + TLC trace validation of recorded xsimd results on all ISAs",
   text="All 8-bit values x all counts (thorough: all 16-bit values), lattice+walking-bit+random values of wider lanes x every scalar count and independent per-lane counts, on 22 architectures + scalar overloads; every lane judged in TLC by LaneInt.IntRel (shift/rotate/bitwise semantics model-checked against IntLane at W=8)."),
 "C03": dict(level="model_checking", ref="6 C03", tech="TLC model checking of the Boolean algebra/K_Count model + TLC trace validation of batch_bool/compare/select events from all ISAs",
   text="Design level: TLC enumerates every mask of <=13 lanes and every mask pair of <=6 lanes and checks the laws tying mask/from_mask/count/all/any/none and the operators together, plus the transcription of xsimd's count() bit tricks. Conformance: every mask of n<=8 lanes (thorough 16) and every pair for n<=4 (thorough 8), manufactured three ways, for every (type, register width) of 22 architectures, and comparison/select lattices for all 10 types incl. NaN/+-0, judged by LaneBool/Xsimd.BoolOK in TLC."),
 "C15": dict(level="model_checking", ref="6 C15", tech="TLC model checking of Cpuid/Dispatch specs (all 5.2M configurations) + trace validation of the real detector under an injected CPUID/XGETBV source and of generated dispatch instantiations",
   text="Design level: TLC checks the transcribed decision table of supported_arch() against Avail (own bits + OS register state), monotonicity and no-VEX-without-OSXSAVE on the hardware-presentable configuration space (thorough: all 2^20 x 5; quick: factorised sub-space), and the dispatcher walk on all sub-lists of a 5-architecture universe. Conformance: the real detector runs under injected configurations through the XSIMD_VERIF hook (thorough: all 5.2M), noise in unread bits, cache histories, ~200 generated arch_list instantiations dispatched under >=20 injected availability sets; TLC judges each event."),
 "C18": dict(level="model_checking", ref="6 C18", tech="TLC model checking of the allocator model + trace validation of real allocate/deallocate histories with the heap invariant checked in every replayed state",
   text="Design level: TLC explores every allocator history of <=5 operations over a small address space (disjointness, alignment) and the transcription of get_alignment_offset on its whole small domain. Conformance: seeded random histories against the real aligned_allocator (one process per history, sizes incl. overflow and near SIZE_MAX, alignments 8..4096) replayed through Alloc.tla's actions with HeapInv as a TLC invariant; is_aligned/get_alignment_offset/max_size/operator== on exhaustive small domains."),
 "C20": dict(level="model_checking", ref="6 C20", tech="TLC evaluation of the Geometry invariants on the specification's table and on the complete table dumped from the real headers per build flavour",
   text="The space (architecture x element type x lane count) is finite and dumped completely from the real headers (C++17, C++11, emulated; thorough adds AVX2-only, SSE2-only, clang); TLC checks every record against Geometry.tla (size*sizeof = register width, bool/complex lane counts, alignment, inheritance chain vs best-first order, arch_list alignment, make_sized_batch, traits)."),
 "C02": dict(level="exploration", ref="6 C02", tech="TLA+ IEEE-754 semantics (exact dyadic arithmetic + RNE, model-checked on a mini-format against a declarative definition) + TLC trace validation of recorded xsimd results on all ISAs",
   text="IEEE.tla is checked by TLC on every operand pair/triple of an 8-bit mini-format against a declarative nearest-value definition; traces of add/sub/mul/div/sqrt/fma family/min/max/sign ops/bit ops/classification/frexp/ldexp/nextafter for float and double from 22 architectures + scalar overloads (special-value lattice^2, class lattice, random, cancellation and fused-vs-unfused-sensitive operands) are judged lane by lane in TLC. float32 unary domain is not enumerated exhaustively (class lattice + random), hence exploration."),
 "C06": dict(level="exploration", ref="6 C06", tech="TLA+ conversion semantics (IntToFloat RNE, FloatToIntTrunc, sign/zero extension, FloatToFloat) + TLC trace validation of all (From,To) conversions and bitwise_cast round trips on all ISAs",
   text="All 100 element type pairs x batch_cast/load_as/store_as/broadcast_as/bitwise_cast(+round trip) on 22 architectures, sources around 2^24, 2^31, 2^32, 2^52, 2^53, 2^63 +-3, int->float halfway cases, halves, every float class, random; each converted element judged in TLC. 32-bit sources by lattice + random, not exhaustively."),
 "C08": dict(level="exploration", ref="6 C08", tech="TLC refinement check of the generic rounding constructions on mini-floats (K_RoundGeneric) + TLC trace validation of ceil/floor/trunc/round/nearbyint/rint/nearbyint_as_int/to_int on all ISAs",
   text="K_RoundGeneric: TLC checks that xsimd's conversion-based trunc, ceil/floor correction, round-via-ceil and add-and-subtract nearbyint equal IEEE RoundInt on EVERY datum of two 8-bit formats. Conformance: per-binade k, k+-ulp, k+1/2(+-ulp), thresholds 2^22..2^24, 2^51..2^53, 2^31, 2^63, 0.49999997, specials and random bit patterns on 22 architectures, judged by IEEE.RoundInt/FloatToIntNear in TLC (zero results compared as numbers)."),
 "C05": dict(level="model_checking", ref="6 C05", tech="TLC model checking of permutation laws and kernel transcriptions (K_Compress, K_ExtractPair, K_Rotate) + TLC trace validation of generated template instantiations and run-time data-movement forms on every accepted (type, ISA) pair",
   text="Design level: TLC enumerates every rotate/extract count, every mask and (n<=4) every index vector on token registers and checks the index-map laws and three kernel transcriptions. Conformance: ~13k generated template instantiations per quick run (constant swizzle/shuffle masks from structured families incl. fast-path patterns and near misses, slide/rotate/insert counts; thorough: all counts, all 4-lane swizzles), all compress/expand masks up to 8 (16) lanes, every extract_pair count, zip, run-time swizzle, transpose on every (type, architecture) combination the library accepts (measured acceptance matrix; assert-aborting combinations excluded); every result lane judged against Perm.tla in TLC. Index vectors of wide batches are sampled."),
 "C09": dict(level="exploration", ref="6 C09", tech="TLC bag model of reduction trees (K_Reduce) + TLC trace validation of reduce_add/max/min, reduce(f), haddp with witnesses placed in every lane, on every accepted (type, ISA) pair",
   text="K_Reduce: TLC checks that the generic halving tree (n = 2..64) and the sse2 8/16-bit max/min tree deliver every lane token (exactly once for add-like trees). Conformance: zero-except-lane-k, all-ones-except-lane-k, rotated ramps, extreme at lane k, distinct powers, signed zeros, exactly-summable and random rows for every lane k; integers judged by the fold, floats exactly when every partial sum is representable and otherwise by the (n-1)-roundings bound, in TLC."),
}
NOT_YET = {}
props = [json.loads(l) for l in open(os.path.join(V, "properties.jsonl"))]
checks = []
na = []
for p in props:
    i = p["id"]
    if i in CHECKS:
        c = CHECKS[i]
        checks.append(dict(property_id=i, quick_cmd="./check %s --tier quick" % i, thorough_cmd="./check %s --tier thorough" % i,
                           evidence_file="/verif/evidence/%s.json" % i, replay_cmd_template="./check %s --replay {path}" % i,
                           engine="tlc", technique=c["tech"],
                           level_claimed=dict(category=c["level"], text=c["text"], design_ref="DESIGN.md section " + c["ref"]),
                           level_note=TRUST))
    else:
        na.append(dict(property_id=i, reason=NOT_YET.get(i, "check not built yet in this round (planned, see DESIGN.md section 6); not claimed until its machinery exists")))
m = dict(version=1, setup_cmd="./setup.sh",
         hooks=dict(guard="XSIMD_VERIF", enable="harness translation units are compiled with -DXSIMD_VERIF=1 -I/repo/include (lib/vf.py)",
                    baseline_off_cmd="cmake --build /repo/_build -j16 && ctest --test-dir /repo/_build -j8 --timeout 900",
                    source_commits=['905149b'], add_only=True),
         engines=[dict(name="tlc", path="/opt/veriftools/tla/tla2tools.jar", serves_properties=sorted(CHECKS), kind_free_text="TLA+ model checker: design-level model checking of spec/*.tla and trace validation of ndjson traces recorded from the real code (spec/T_*.tla)")],
         checks=checks, not_applicable=na,
         notes="Model-based verification with an explicit TLA+ specification (spec/), TLC as the only judge; see DESIGN.md. Known findings and fixed defects: known_findings.json.")
json.dump(m, open(os.path.join(V, "MANIFEST.json"), "w"), indent=1)
print("claimed:", sorted(CHECKS), "not_applicable:", len(na))
