#!/usr/bin/env python3
"""Regenerates /verif/MANIFEST.json from the table below (single source of truth for what is claimed)."""
import json, os
V = os.path.dirname(os.path.dirname(os.path.abspath(__file__)))
TRUST = ("TLC 1.8.0 + CommunityModules Json/IOUtils; the C++ harness (records only, never judges); g++ 12 -O2 -march=native; "
         "one host micro-architecture executes all 20 x86 ISAs + emulated<128/256> + scalar overloads; NEON/SVE/RVV/WASM not executable")
CHECKS = {
 "C01": dict(level="exploration", ref="6 C01", tech="TLA+ lane semantics (BvLane=IntLane model-checked exhaustively at W=8) + TLC trace validation of recorded xsimd results on all ISAs",
   text="TLC checks BvLane == IntLane (definitional two's-complement semantics) on every 8-bit operand pair, then judges every lane of traces recorded from the real kernels of 22 architectures + scalar overloads (Lattice^2 + random operands, all 8 integer types, every op incl. masked, fma family, divmod by characterisation) against that semantics. Sampled over operand values for 16/32/64-bit lanes, hence exploration."),
 "C07": dict(level="exploration", ref="6 C07", tech="TLA+ bit-vector lane semantics + TLC trace validation of recorded xsimd results on all ISAs",
   text="All 8-bit values x all counts (thorough: all 16-bit values), lattice+walking-bit+random values of wider lanes x every scalar count and independent per-lane counts, on 22 architectures + scalar overloads; every lane judged in TLC by LaneInt.IntRel (shift/rotate/bitwise semantics model-checked against IntLane at W=8)."),
}
NOT_YET = {}
props = [json.loads(l) for l in open(os.path.join(V, "properties.jsonl"))]
checks = []
na = []
for p in props:
    i = p["id"]
    if i in CHECKS:
        c = CHECKS[i]
        checks.append(dict(property_id=i, quick_cmd="./check %s --tier quick" % i, thorough_cmd="./check %s --tier thorough" % i,
                           evidence_file="/verif/evidence/%s.json" % i, replay_cmd_template="./check %s --replay {path}" % i,
                           engine="tlc", technique=c["tech"],
                           level_claimed=dict(category=c["level"], text=c["text"], design_ref="DESIGN.md section " + c["ref"]),
                           level_note=TRUST))
    else:
        na.append(dict(property_id=i, reason=NOT_YET.get(i, "check not built yet in this round (planned, see DESIGN.md section 6); not claimed until its machinery exists")))
m = dict(version=1, setup_cmd="./setup.sh",
         hooks=dict(guard="XSIMD_VERIF", enable="harness translation units are compiled with -DXSIMD_VERIF=1 -I/repo/include (lib/vf.py)",
                    baseline_off_cmd="cmake --build /repo/_build -j16 && ctest --test-dir /repo/_build -j8 --timeout 900",
                    source_commits=[], add_only=True),
         engines=[dict(name="tlc", path="/opt/veriftools/tla/tla2tools.jar", serves_properties=sorted(CHECKS), kind_free_text="TLA+ model checker: design-level model checking of spec/*.tla and trace validation of ndjson traces recorded from the real code (spec/T_*.tla)")],
         checks=checks, not_applicable=na,
         notes="Model-based verification with an explicit TLA+ specification (spec/), TLC as the only judge; see DESIGN.md. Known findings and fixed defects: known_findings.json.")
json.dump(m, open(os.path.join(V, "MANIFEST.json"), "w"), indent=1)
print("claimed:", sorted(CHECKS), "not_applicable:", len(na))
