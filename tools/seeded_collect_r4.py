#!/usr/bin/env python3
"""Collect the fourth round of seeded changes (/tmp/seed4/out/R4-*) into /verif/seeded/<id>/ and print the table for seeded/README.md.
Confirmation of each change (done here, not by the sub-agents): the patch applies to /repo HEAD; the demonstration exits 1 on the mutated
tree and 0 on /repo (tools/seeded_run.py); the pinned suite was rebuilt and passes with ALL changes of the change's group applied together
(tools/seeded_group_suite.sh: five groups of 8-10 independent sites, 'Status: SUCCESS' each) - one suite build per group instead of one per change."""
import json
import os
import shutil
import sys

V = os.path.dirname(os.path.dirname(os.path.abspath(__file__)))
GROUP = {}
for g, props in {1: "C01 C07 C13 C17", 2: "C02 C06 C08 C09", 3: "C03 C04 C05 C19", 4: "C10 C11 C12 C16", 5: "C14 C15 C18 C20"}.items():
    for p in props.split():
        GROUP[p] = g
suite = {}
for line in open(os.path.join(V, "build", "seeded_suite_groups.log")):
    if line.startswith("group "):
        g = int(line.split()[1])
        suite[g] = "applied_all=1" in line and "Status: SUCCESS" in line
res = {}
for fn in ("seeded_r4.jsonl", "seeded_r4b.jsonl"):
    p = os.path.join(V, "build", fn)
    if not os.path.exists(p):
        continue
    for line in open(p):
        r = json.loads(line)
        key = os.path.basename(r["dir"])
        old = res.get(key, {})
        hist = old.get("_hist", {})
        for k, v in r.items():
            if k.startswith("check_"):
                hist.setdefault(k[6:], []).append(v["rc"])
        old.update({k: v for k, v in r.items() if v is not None})
        old["_hist"] = hist
        res[key] = old
rows = []
for key in sorted(res):
    r = res[key]
    prop = r["property"]
    ok_suite = suite.get(GROUP.get(prop, 0), False) or r.get("suite_ok")
    confirmed = r.get("applies") and ok_suite and r.get("demo_mutated_rc") == 1 and r.get("demo_clean_rc") == 0
    checks = {k[6:]: v for k, v in r.items() if k.startswith("check_")}
    caught = sorted(c for c, v in checks.items() if v["rc"] == 1)
    missed = sorted(c for c, v in checks.items() if v["rc"] == 0)
    broken = sorted(c for c, v in checks.items() if v["rc"] not in (0, 1))
    first_missed = sorted(c for c, h in r["_hist"].items() if h and h[0] != 1 and h[-1] == 1)
    meta = json.load(open(os.path.join(r["dir"], "meta.json")))
    note = "" if confirmed else "not kept: not confirmed (applies=%s suite=%s demo=%s/%s)" % (r.get("applies"), ok_suite, r.get("demo_mutated_rc"), r.get("demo_clean_rc"))
    if first_missed:
        note = (note + "; " if note else "") + "first run of %s did not report it; the check was strengthened (DESIGN 0.9)" % ", ".join(first_missed)
    rows.append((key, prop, meta.get("summary", "")[:200].replace("|", "/").replace("\n", " "), meta.get("needs", "")[:160].replace("|", "/").replace("\n", " "), caught, missed, broken, note))
    if confirmed:
        d = os.path.join(V, "seeded", key)
        os.makedirs(d, exist_ok=True)
        for f in ("patch.diff", "demo.cpp"):
            shutil.copy(os.path.join(r["dir"], f), os.path.join(d, f))
        meta["property"] = prop
        meta["what_was_run"] = ("tools/seeded_run.py: git apply patch.diff on a scratch worktree of /repo HEAD; demo.cpp compiled against the mutated tree (exit %s) and against /repo (exit %s); "
                                "pinned suite rebuilt and run with all %s changes of group %d applied together (Status: SUCCESS; tools/seeded_group_suite.sh) - %s; "
                                "./check <id> --tier quick with VERIF_REPO=<scratch tree>"
                                % (r.get("demo_mutated_rc"), r.get("demo_clean_rc"), sum(1 for k in res if GROUP.get(res[k]["property"]) == GROUP.get(prop)), GROUP.get(prop, 0),
                                   "and singly" if r.get("suite_ok") else "not singly"))
        meta["detected_by"] = caught
        meta["initially_missed_by"] = first_missed
        meta["missed_by"] = missed
        meta["first_violation"] = next((v["viol"][0] for c, v in checks.items() if v.get("viol")), "")[:400]
        json.dump(meta, open(os.path.join(d, "meta.json"), "w"), indent=1)
print("| id | property | change | needs | reported by (quick tier) | not reported by |")
print("|---|---|---|---|---|---|")
for key, prop, summ, needs, caught, missed, broken, note in rows:
    print("| %s | %s | %s | %s | %s | %s |" % (key, prop, summ, needs, ", ".join(caught) or "—", (", ".join(missed) or "—") + ((" (infra: " + ", ".join(broken) + ")") if broken else "") + ((" — " + note) if note else "")))
