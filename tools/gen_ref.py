#!/usr/bin/env python3-vt
"""Model of the uninterpreted constant Exact(f, x) of spec/Accuracy.tla: evaluates the elementary functions with mpmath at
300 bits and writes, for every requested point, the table entry TLC judges with:
   kind  0 finite non-zero value      1 exact zero      2 +-infinity / pole      3 not a real number (NaN expected)      4 skipped
   s     sign of the exact value (0/1)
   e     floor(log2 |Exact|)
   m     floor(|Exact| * 2^(P+7-e))  (P+8 significant bits; the 2^-8 ulp truncation is accounted for on the safe side by TLC)
   yl    (pow only) floor(|y ln x|) + 1
stdin : one point per line  "<fn> <bits> <xhex> [<yhex>]"     stdout: "<kind> <s> <e> <m> <yl>" per line
This program never sees a result of xsimd and decides nothing."""
import struct
import sys
import mpmath as mp

mp.mp.prec = 300


def dec(h, bits):
    b = int(h, 16)
    if bits == 32:
        v = struct.unpack("<f", struct.pack("<I", b))[0]
    else:
        v = struct.unpack("<d", struct.pack("<Q", b))[0]
    return mp.mpf(v)


FN1 = {
    "exp": mp.exp, "exp2": lambda x: mp.power(2, x), "exp10": lambda x: mp.power(10, x), "expm1": mp.expm1, "log": mp.log, "log2": lambda x: mp.log(x, 2),
    "log10": mp.log10, "log1p": mp.log1p, "sin": mp.sin, "cos": mp.cos, "tan": mp.tan, "asin": mp.asin, "acos": mp.acos, "atan": mp.atan,
    "sinh": mp.sinh, "cosh": mp.cosh, "tanh": mp.tanh, "asinh": mp.asinh, "acosh": mp.acosh, "atanh": mp.atanh, "cbrt": lambda x: mp.sign(x) * mp.cbrt(abs(x)),
    "erf": mp.erf, "erfc": mp.erfc, "tgamma": mp.gamma, "lgamma": lambda x: mp.log(abs(mp.gamma(x))) if x < 170 else mp.loggamma(x), "sqrt": mp.sqrt,
}
FN2 = {"pow": mp.power, "atan2": mp.atan2, "hypot": mp.hypot}


def entry(fn, bits, xh, yh):
    P = 24 if bits == 32 else 53
    x = dec(xh, bits)
    yl = 0
    try:
        if not mp.isfinite(x):
            return (4, 0, 0, 0, 0)
        if fn in FN1:
            if fn == "lgamma" and x > 170:
                v = mp.loggamma(x)
            elif fn in ("tgamma", "lgamma") and x <= 0 and x == mp.floor(x):
                return (2, 0, 0, 0, 0)
            else:
                v = FN1[fn](x)
        else:
            y = dec(yh, bits)
            if not mp.isfinite(y):
                return (4, 0, 0, 0, 0)
            if fn == "pow":
                if x <= 0:
                    return (4, 0, 0, 0, 0)     # accuracy of pow is judged for positive bases
                yl = int(mp.floor(abs(y * mp.log(x)))) + 1
                if yl > 100000:
                    yl = 100000
            if fn == "atan2" and x == 0 and y == 0:
                return (4, 0, 0, 0, 0)
            v = FN2[fn](x, y)
    except (ValueError, ZeroDivisionError, OverflowError):
        return (2, 0, 0, 0, 0)
    if isinstance(v, mp.mpc):
        if v.imag != 0:
            return (3, 0, 0, 0, 0)
        v = v.real
    if mp.isnan(v):
        return (3, 0, 0, 0, 0)
    if mp.isinf(v):
        return (2, 1 if v < 0 else 0, 0, 0, 0)
    if v == 0:
        return (1, 0, 0, 0, 0)
    s = 1 if v < 0 else 0
    a = abs(v)
    e = int(mp.floor(mp.log(a, 2)))
    if mp.ldexp(mp.mpf(1), e) > a:
        e -= 1
    elif mp.ldexp(mp.mpf(1), e + 1) <= a:
        e += 1
    # exponents far outside every binary format (exp2(1e30), erfc(1e20) ...) are clamped: TLC's integers are 32-bit, and beyond the
    # format's range only the sign and the side (overflow / underflow) of the exact value enter the judgement
    if e > 100000:
        return (0, s, 100000, 1 << (P + 7), yl)
    if e < -100000:
        return (0, s, -100000, 1 << (P + 7), yl)
    m = int(mp.floor(mp.ldexp(a, P + 7 - e)))
    return (0, s, e, m, yl)


CFN = {"exp": mp.exp, "expm1": mp.expm1, "log": mp.log, "log2": lambda z: mp.log(z) / mp.log(2), "log10": lambda z: mp.log(z) / mp.log(10), "sqrt": mp.sqrt,
       "sin": mp.sin, "cos": mp.cos, "sinh": mp.sinh, "cosh": mp.cosh, "tan": mp.tan, "tanh": mp.tanh,
       "norm": lambda z: mp.mpc(z.real * z.real + z.imag * z.imag, 0), "abs": lambda z: mp.mpc(abs(z), 0),
       "arg": lambda z: mp.mpc(mp.atan2(z.imag, z.real), 0)}


def comp(v, P):
    """(kind, s, e, m) of one real component: kind 0 value, 1 zero, 2 not finite"""
    if mp.isnan(v) or mp.isinf(v):
        return (2, 0, 0, 0)
    if v == 0:
        return (1, 0, 0, 0)
    a = abs(v)
    e = int(mp.floor(mp.log(a, 2)))
    if mp.ldexp(mp.mpf(1), e) > a:
        e -= 1
    elif mp.ldexp(mp.mpf(1), e + 1) <= a:
        e += 1
    return (0, 1 if v < 0 else 0, e, int(mp.floor(mp.ldexp(a, P + 7 - e))))


def negzero(h, bits):
    return len(h) == bits // 4 and h[0] in "89abcdefABCDEF" and int(h[1:] or "0", 16) == 0 and h[0] == "8"


def atan2z(im, imh, re, bits):
    """atan2 honouring the sign of a zero imaginary part (mpmath has no signed zero)"""
    if im == 0 and negzero(imh, bits):
        return -mp.pi if re < 0 else mp.mpf(0)
    return mp.atan2(im, re)


def centry(fn, bits, reh, imh, yh):
    """complex function: table entries of Re, Im and of the modulus of the exact result"""
    P = 24 if bits == 32 else 53
    re, im = dec(reh, bits), dec(imh, bits)
    bad = [(2, 0, 0, 0)] * 3
    if not (mp.isfinite(re) and mp.isfinite(im)):
        return bad
    try:
        if fn == "pow":
            y = dec(yh, bits)
            if not mp.isfinite(y) or (re == 0 and im == 0):
                return bad
            # principal branch; the sign of a zero imaginary part selects the side of the cut
            z = mp.mpc(re, im)
            lg = mp.mpc(mp.log(abs(z)), atan2z(im, imh, re, bits))
            v = mp.exp(y * lg)
        elif fn == "polar":
            v = mp.mpc(re * mp.cos(im), re * mp.sin(im))          # (r, theta) passed as (re, im)
        elif fn in ("log", "log2", "log10"):
            if re == 0 and im == 0:
                return bad
            lg = mp.mpc(mp.log(mp.hypot(re, im)), atan2z(im, imh, re, bits))
            v = lg / (mp.log(2) if fn == "log2" else mp.log(10) if fn == "log10" else 1)
        elif fn == "sqrt":
            v = mp.sqrt(mp.mpc(re, im))
            if im == 0 and re < 0 and negzero(imh, bits):
                v = mp.conj(v)                                   # -0 imaginary part: the other side of the branch cut
        elif fn == "arg":
            v = mp.mpc(atan2z(im, imh, re, bits), 0)
        else:
            v = CFN[fn](mp.mpc(re, im))
    except (ValueError, ZeroDivisionError, OverflowError):
        return bad
    v = mp.mpc(v)
    return [comp(v.real, P), comp(v.imag, P), comp(abs(v), P)]


def main():
    out = []
    for line in sys.stdin:
        f = line.split()
        if not f:
            continue
        if f[0].startswith("c:"):
            ents = centry(f[0][2:], int(f[1]), f[2], f[3], f[4] if len(f) > 4 else None)
            out.append(" ".join("%d %d %d %d" % e for e in ents))
            continue
        k, s, e, m, yl = entry(f[0], int(f[1]), f[2], f[3] if len(f) > 3 else None)
        out.append("%d %d %d %d %d" % (k, s, e, m, yl))
    sys.stdout.write("\n".join(out) + "\n")


if __name__ == "__main__":
    main()
