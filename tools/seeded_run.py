#!/usr/bin/env python3
"""Evaluate seeded defects: for each <dir> with patch.diff/demo.cpp/meta.json
   - apply the patch to a scratch copy of /repo (git worktree of HEAD),
   - optionally (--suite) build and run the repository's test suite there and the demo on clean/mutated trees,
   - run the owning property's quick check against the scratch copy (VERIF_REPO) and record whether it reports a violation.
usage: tools/seeded_run.py [--suite] [--checks C01,C17] <dir>...     (results appended to build/seeded_results.jsonl)"""
import json
import os
import subprocess
import sys
import time

V = os.path.dirname(os.path.dirname(os.path.abspath(__file__)))


def sh(cmd, **kw):
    return subprocess.run(cmd, shell=isinstance(cmd, str), stdout=subprocess.PIPE, stderr=subprocess.STDOUT, text=True, **kw)


def main():
    args = sys.argv[1:]
    suite = "--suite" in args
    args = [a for a in args if a != "--suite"]
    extra_checks = None
    if "--checks" in args:
        i = args.index("--checks")
        extra_checks = args[i + 1].split(",")
        del args[i:i + 2]
    wt = os.environ.get("SEEDED_WT", "/tmp/wt/seedrun_%d" % os.getpid())
    sh("git -C /repo worktree remove --force %s" % wt)
    r = sh("git -C /repo worktree add -q --detach %s HEAD" % wt)
    assert r.returncode == 0, r.stdout
    out = open(os.environ.get("SEEDED_RESULTS", os.path.join(V, "build", "seeded_results.jsonl")), "a")
    try:
        for d in map(os.path.abspath, args):
            meta = json.load(open(os.path.join(d, "meta.json")))
            prop = meta["property"]
            res = dict(dir=d, property=prop, t=time.strftime("%H:%M:%S"))
            sh("git -C %s reset -q --hard && git -C %s clean -qfd -e _build" % (wt, wt))
            r = sh("git -C %s apply %s" % (wt, os.path.join(d, "patch.diff")))
            if r.returncode != 0:
                r = sh("git -C %s apply --3way %s" % (wt, os.path.join(d, "patch.diff")))
            res["applies"] = r.returncode == 0
            if not res["applies"]:
                res["apply_err"] = r.stdout[-300:]
                out.write(json.dumps(res) + "\n"); out.flush()
                print(json.dumps(res)); continue
            # demo on mutated tree / clean tree
            demo = os.path.join(d, "demo.cpp")
            if os.path.exists(demo):
                import re
                first = open(demo).readline()
                xf = " ".join(re.findall(r"(?<!\S)-D[A-Za-z_0-9=]+", first))          # e.g. -DXSIMD_VERIF=1 named in the demo's compile line
                r = sh("g++ -std=c++17 -O2 -march=native %s -I%s/include %s -o %s/demo_m && timeout 60 %s/demo_m" % (xf, wt, demo, wt, wt))
                res["demo_mutated_rc"] = r.returncode
                r = sh("g++ -std=c++17 -O2 -march=native %s -I/repo/include %s -o %s/demo_c && timeout 60 %s/demo_c" % (xf, demo, wt, wt))
                res["demo_clean_rc"] = r.returncode
            if suite:
                r = sh("cd %s && cmake -G Ninja -B _build -DBUILD_TESTS=ON -DCMAKE_BUILD_TYPE=RelWithDebInfo -DCMAKE_CXX_FLAGS=-Wno-error -DTARGET_ARCH=native -DXSIMD_ENABLE_WERROR=OFF . >/dev/null && cmake --build _build -j%s 2>&1 | tail -1 && ./_build/test/test_xsimd | tail -2" % (wt, os.environ.get("SEEDED_J", "8")))
                res["suite_ok"] = "Status: SUCCESS" in r.stdout
                res["suite_tail"] = r.stdout[-160:]
            for chk in (extra_checks or [prop]):
                env = dict(os.environ, VERIF_REPO=wt, VERIF_TIER="quick", VERIF_OUT=os.path.join(V, "build", "seeded_out"))
                t0 = time.time()
                r = sh([os.path.join(V, "check"), chk], env=env, cwd=V)
                res["check_%s" % chk] = dict(rc=r.returncode, wall=round(time.time() - t0, 1),
                                              viol=[l[:300] for l in r.stdout.splitlines() if l.startswith("VIOLATION")][:4],
                                              err=r.stdout[-400:] if r.returncode not in (0, 1) else "")
            out.write(json.dumps(res) + "\n"); out.flush()
            print(json.dumps(res)[:600], flush=True)
    finally:
        sh("git -C /repo worktree remove --force %s" % wt)


if __name__ == "__main__":
    main()
