#!/usr/bin/env python3
"""Which lines of xsimd does the conformance harness actually execute?

The trace specifications can only reject what the harness observes, so a kernel line that no plan reaches is a place
where a change would go unnoticed.  This tool rebuilds the harness families with gcov instrumentation (VERIF_EXTRA_CXXFLAGS,
own build-cache entries), runs the quick tier of the selected checks with evidence/replays redirected to build/cov_out, and
aggregates the execution counts of every instrumented line under <repo>/include.  Reported per header:
  * lines instrumented (the enclosing template was instantiated by some translation unit) / lines executed,
  * the never-executed lines (with their source text),
  * functions of the header that were never even instantiated (no instrumented line between two XSIMD_INLINE heads).
It judges nothing; it is a planning aid for growing the plans (DESIGN.md section 0.9).

usage: tools/coverage.py [--no-run] [C01 C02 ...]      (report: build/coverage/report.txt, build/coverage/lines.json)"""
import glob
import json
import os
import re
import subprocess
import sys
import concurrent.futures as cf

V = os.path.dirname(os.path.dirname(os.path.abspath(__file__)))
REPO = os.environ.get("VERIF_REPO", "/repo")
if "--noinline" in sys.argv:
    # XSIMD_INLINE is always_inline: gcov then attributes most kernel lines to nothing.  A shadow copy of the include tree with
    # XSIMD_INLINE = inline, compiled with -fno-inline, gives every kernel its own counters (the code under test is otherwise identical)
    sh_root = os.path.join(V, "build", "cov_repo")
    subprocess.run(["rsync", "-a", "--delete", os.path.join(REPO, "include"), sh_root + "/"], check=True)
    with open(os.path.join(sh_root, "include", "xsimd", "config", "xsimd_inline.hpp"), "w") as f:
        f.write("#ifndef XSIMD_INLINE_HPP\n#define XSIMD_INLINE_HPP\n#define XSIMD_INLINE inline\n#endif\n")
    REPO = sh_root
    os.environ["VERIF_REPO"] = sh_root
ALL = ["C%02d" % i for i in range(1, 21)]


def main():
    args = sys.argv[1:]
    norun = "--no-run" in args
    noinline = "--noinline" in args
    props = [a for a in args if a.startswith("C")] or ALL
    env = dict(os.environ, VERIF_EXTRA_CXXFLAGS="--coverage -fno-inline" if noinline else "--coverage", VERIF_EXTRA_LDFLAGS="--coverage",
               VERIF_OUT=os.path.join(V, "build", "cov_out"), VERIF_TIER="quick")
    if not norun:
        for p in props:
            r = subprocess.run([os.path.join(V, "check"), p], env=env, cwd=V, stdout=subprocess.PIPE, stderr=subprocess.STDOUT, text=True)
            print(p, "rc=%d" % r.returncode, r.stdout.strip().splitlines()[-1][:160], flush=True)
    gcdas = glob.glob(os.path.join(V, "build", "h", "*", "*", "*.gcda")) + glob.glob(os.path.join(V, "build", "h", "*", "*", "*", "*.gcda"))
    inc = os.path.realpath(os.path.join(REPO, "include")) + "/"
    counts = {}          # file -> line -> count

    def one(g):
        r = subprocess.run(["gcov", "-j", "-t", os.path.basename(g)], cwd=os.path.dirname(g), stdout=subprocess.PIPE, stderr=subprocess.DEVNULL)
        out = {}
        try:
            js = json.loads(r.stdout)
        except Exception:
            return out
        for f in js.get("files", []):
            fn = os.path.realpath(os.path.join(os.path.dirname(g), f["file"]))
            if not fn.startswith(inc):
                continue
            d = out.setdefault(fn[len(inc):], {})
            for ln in f["lines"]:
                d[ln["line_number"]] = d.get(ln["line_number"], 0) + ln["count"]
        return out

    with cf.ThreadPoolExecutor(16) as ex:
        for out in ex.map(one, gcdas):
            for fn, d in out.items():
                c = counts.setdefault(fn, {})
                for k, v in d.items():
                    c[k] = c.get(k, 0) + v
    os.makedirs(os.path.join(V, "build", "coverage"), exist_ok=True)
    rep = []
    tot_i = tot_h = 0
    summary = []
    for fn in sorted(counts):
        c = counts[fn]
        src = open(os.path.join(inc, fn), errors="replace").read().splitlines()
        inst = sorted(c)
        hit = [l for l in inst if c[l] > 0]
        tot_i += len(inst)
        tot_h += len(hit)
        # never-instantiated functions
        heads = [i + 1 for i, s in enumerate(src) if re.search(r"\bXSIMD_INLINE\b", s) and not s.strip().startswith("//")]
        never = []
        for a, b in zip(heads, heads[1:] + [len(src) + 1]):
            if not any(a <= l < b for l in inst):
                # only bodies (skip pure declarations ending in ';' on the head line or the next)
                head = " ".join(src[a - 1:min(a + 2, len(src))])
                if ";" in head.split("{")[0] and "{" not in head:
                    continue
                never.append((a, src[a - 1].strip()[:150]))
        summary.append((fn, len(inst), len(hit), len(never)))
        rep.append("=" * 100)
        rep.append("%s: %d instrumented, %d executed, %d never executed, %d functions never instantiated" % (fn, len(inst), len(hit), len(inst) - len(hit), len(never)))
        for l in inst:
            if c[l] == 0:
                rep.append("  UNHIT %5d: %s" % (l, src[l - 1].strip()[:150] if l <= len(src) else ""))
        for a, s in never:
            rep.append("  NOINST %5d: %s" % (a, s))
    head = ["coverage of %s/include by the quick tier of %s: %d lines instrumented, %d executed (%.1f%%)" % (REPO, ",".join(props), tot_i, tot_h, 100.0 * tot_h / max(tot_i, 1))]
    for fn, i, h, n in summary:
        head.append("  %-60s %5d inst %5d hit %5d unhit %4d noinst" % (fn, i, h, i - h, n))
    with open(os.path.join(V, "build", "coverage", "report.txt"), "w") as f:
        f.write("\n".join(head + rep) + "\n")
    with open(os.path.join(V, "build", "coverage", "lines.json"), "w") as f:
        json.dump({fn: {str(k): v for k, v in c.items()} for fn, c in counts.items()}, f)
    print("\n".join(head))


if __name__ == "__main__":
    main()
