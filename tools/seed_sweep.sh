#!/bin/bash
# run every quick check under several seeds against /repo (evidence redirected); prints one line per (seed, check)
cd "$(dirname "$0")/.."
for seed in "$@"; do
  for c in C01 C02 C03 C04 C05 C06 C07 C08 C09 C10 C11 C12 C13 C14 C15 C16 C17 C18 C19 C20; do
    VERIF_OUT=build/sweep_out ./check $c --tier quick --seed $seed > build/sweep_${seed}_$c.log 2>&1
    echo "seed=$seed $c rc=$? viol=$(grep -c '^VIOLATION' build/sweep_${seed}_$c.log)"
  done
done
