#!/usr/bin/env python3
"""Collect evaluated seeded changes into /verif/seeded/<id>/ and print the DESIGN.md table.
Reads build/seeded_results.jsonl (last entry per mutant wins). A change is kept only when it was confirmed here:
the patch applies to HEAD, the pinned suite passes with it, and the demonstration fails with it and passes without it."""
import json
import os
import shutil
import sys

V = os.path.dirname(os.path.dirname(os.path.abspath(__file__)))
res = {}
for line in open(os.path.join(V, "build", "seeded_results.jsonl")):
    r = json.loads(line)
    key = os.path.basename(r["dir"]) if "/seed2" not in r["dir"] and "r2" not in r["dir"] else "R2-" + os.path.basename(r["dir"])
    old = res.get(key, {})
    hist = old.get("_hist", {})
    for k, v in r.items():
        if k.startswith("check_"):
            hist.setdefault(k[6:], []).append(v["rc"])
    old.update(r)          # later runs (e.g. additional --checks, re-evaluation after a check was strengthened) refine earlier ones
    old["_hist"] = hist
    res[key] = old
rows = []
for key in sorted(res):
    r = res[key]
    confirmed = r.get("applies") and r.get("suite_ok") and r.get("demo_mutated_rc") == 1 and r.get("demo_clean_rc") == 0
    checks = {k[6:]: v for k, v in r.items() if k.startswith("check_")}
    caught = sorted(c for c, v in checks.items() if v["rc"] == 1)
    missed = sorted(c for c, v in checks.items() if v["rc"] == 0)
    broken = sorted(c for c, v in checks.items() if v["rc"] not in (0, 1))
    meta = json.load(open(os.path.join(r["dir"], "meta.json")))
    note = ""
    if not confirmed:
        note = "not kept: " + ("patch does not apply" if not r.get("applies") else "pinned suite fails with it" if r.get("suite_ok") is False else
                               "demonstration does not separate the trees" if "suite_ok" in r else "not confirmed")
    first_missed = sorted(c for c, h in r.get("_hist", {}).items() if h and h[0] != 1 and h[-1] == 1)
    if first_missed:
        note = (note + "; " if note else "") + "first run of %s did not report it; the check was strengthened (see 0.6)" % ", ".join(first_missed)
    rows.append((key, r["property"], meta.get("summary", "")[:160].replace("|", "/"), meta.get("needs", "")[:120].replace("|", "/"), caught, missed, broken, note))
    if confirmed:
        d = os.path.join(V, "seeded", key)
        os.makedirs(d, exist_ok=True)
        for f in ("patch.diff", "demo.cpp"):
            if os.path.exists(os.path.join(r["dir"], f)):
                shutil.copy(os.path.join(r["dir"], f), os.path.join(d, f))
        meta["what_was_run"] = ("tools/seeded_run.py --suite: git apply patch.diff on a scratch worktree of /repo HEAD; demo.cpp compiled against the mutated tree (exit %s) and against /repo (exit %s); "
                                "pinned suite rebuilt and run on the mutated tree (%s); ./check <id> --tier quick with VERIF_REPO=<scratch tree>"
                                % (r.get("demo_mutated_rc"), r.get("demo_clean_rc"), "Status: SUCCESS" if r.get("suite_ok") else "FAILED"))
        meta["detected_by"] = caught
        meta["initially_missed_by"] = first_missed
        meta["missed_by"] = missed
        meta["first_violation"] = next((v["viol"][0] for c, v in checks.items() if v.get("viol")), "")[:400]
        json.dump(meta, open(os.path.join(d, "meta.json"), "w"), indent=1)
print("| id | property | change | needs | reported by (quick tier) | not reported by |")
print("|---|---|---|---|---|---|")
for key, prop, summ, needs, caught, missed, broken, note in rows:
    print("| %s | %s | %s | %s | %s | %s |" % (key, prop, summ, needs, ", ".join(caught) or "—", (", ".join(missed) or "—") + ((" (infra: " + ", ".join(broken) + ")") if broken else "") + ((" — " + note) if note else "")))
