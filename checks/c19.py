#!/usr/bin/env python3
"""C19 - compile-time constant batches denote the same lanes as their run-time counterparts."""
import hashlib
import os
import re
import sys
sys.path.insert(0, os.path.join(os.path.dirname(os.path.abspath(__file__)), "..", "lib"))
sys.path.insert(0, os.path.dirname(os.path.abspath(__file__)))
import vf
import lanes
import c05

ITYPES = [("int8_t", "i8", 1, True), ("uint8_t", "u8", 1, False), ("int16_t", "i16", 2, True), ("uint16_t", "u16", 2, False),
          ("int32_t", "i32", 4, True), ("uint32_t", "u32", 4, False), ("int64_t", "i64", 8, True), ("uint64_t", "u64", 8, False)]
FTYPES = [("float", "f32", 4), ("double", "f64", 8)]


def lit(v, bits, signed):
    """C++ literal of lane value v (given as a bit pattern) for the element type"""
    if signed and v >> (bits - 1):
        v -= 1 << bits
    if bits == 64:
        if signed:
            return "(-9223372036854775807LL - 1)" if v == -(1 << 63) else "%dLL" % v
        return "%dULL" % v
    return str(v)


def packs(rng, n, bits, k):
    """value packs covering each lane independently: one-hot, all-but-one, ramp, boundary values, random"""
    m = (1 << bits) - 1
    out = []
    hot = rng.randrange(n)
    out.append([(rng.getrandbits(bits) | 1) if i == hot else 0 for i in range(n)])
    out.append([0 if i == hot else m for i in range(n)])
    out.append([(i * 3 + 1) & m for i in range(n)])
    out.append([[0, 1, m, 1 << (bits - 1), (1 << (bits - 1)) - 1, m - 1, 0x55 & m, 2][i % 8] for i in range(n)])
    for _ in range(k):
        out.append([rng.getrandbits(bits) for _ in range(n)])
    return out


def generate(ctx):
    rng = ctx.rng
    acc = c05.load_accept()
    out = []
    cases = {}
    cid = [0]

    def name(**kw):
        cid[0] += 1
        nm = "cc:%d" % cid[0]
        cases[nm] = kw
        return nm
    for archset, archs, base in (("x86", vf.X86_ARCHS, 0), ("emu", vf.EMU_ARCHS, 100)):
        for ai, (an, acxx, regb, _) in enumerate(archs):
            out.append("#if VD_ARCH_ID == %d" % (ai + base))
            for tcxx, tn, nb, sg in ITYPES:
                bits, n = 8 * nb, regb // nb
                ps = packs(rng, n, bits, ctx.q(1, 6))
                if sg and bits >= 32:
                    # batch_constant<int32/int64, ..., MIN, ...> cannot be instantiated at all: the declaration of operator-() evaluates
                    # (T)-MIN in a constant expression (ill-formed), so MIN is outside what the library accepts
                    ps = [[v if v != (1 << (bits - 1)) else v + 1 for v in p] for p in ps]
                L = lambda p: ", ".join(lit(v, bits, sg) for v in p)
                for p in ps[: ctx.q(3, 10)]:
                    out.append('CC_CONST(%s, "%s", %s)' % (tcxx, name(ck="const", op="-", va=p, nb=nb), L(p)))
                for g, pa, pb in (("iota", 1, 0), ("rev", 1, 0), ("mod", 3, 1), ("par", 5, 2), ("iota", 2, 1)):
                    out.append('CC_GEN(%s, "%s", cc_gen_%s, %d, %d)' % (tcxx, name(ck="gen", op=g, g=[pa, pb], nb=nb), g, pa, pb))
                # signed overflow in a constant expression is ill-formed: 32/64-bit signed packs for + - * unary- stay small
                small = [[((rng.getrandbits(15) - (1 << 14)) if sg else rng.getrandbits(15)) & ((1 << bits) - 1) for _ in range(n)] for _ in range(3)]
                for op in ("+", "-", "*", "&", "|", "^"):
                    wide = (not sg and bits >= 32) or bits == 8 or (bits == 16 and op != "*")     # (u)int16 products are computed in int; a signed wide result must not be MIN
                    a, b = (rng.choice(ps), rng.choice(ps)) if wide else (rng.choice(small), rng.choice(small))
                    out.append('CC_OP2(%s, "%s", %s, CCP(%s), CCP(%s))' % (tcxx, name(ck="op2", op=op, va=a, vb=b, nb=nb), op, L(a), L(b)))
                for op in ("/", "%"):
                    a = rng.choice(ps) if (not sg or bits < 32) else rng.choice(small)
                    b = [v if v not in (0, (1 << bits) - 1) else 3 for v in rng.choice(ps)]        # no zero divisor, no MIN / -1
                    out.append('CC_OP2(%s, "%s", %s, CCP(%s), CCP(%s))' % (tcxx, name(ck="op2", op=op, va=a, vb=b, nb=nb), op, L(a), L(b)))
                for op in ("-", "~"):
                    a = rng.choice(ps) if (not sg or bits < 32) else rng.choice(small)
                    out.append('CC_OP1(%s, "%s", %s, CCP(%s))' % (tcxx, name(ck="op1", op=op, va=a, nb=nb), op, L(a)))
            for tcxx, tn, nb in [(x[0], x[1], x[2]) for x in ITYPES] + FTYPES:
                n = regb // nb
                bp = []
                hot = rng.randrange(n)
                bp.append([1 if i == hot else 0 for i in range(n)])
                bp.append([0 if i == hot else 1 for i in range(n)])
                bp.append([i % 2 for i in range(n)])
                bp.append([1 if i >= n // 2 else 0 for i in range(n)])
                for _ in range(ctx.q(1, 6)):
                    bp.append([rng.getrandbits(1) for _ in range(n)])
                B = lambda p: ", ".join("true" if v else "false" for v in p)
                for p in bp[: ctx.q(3, 12)]:
                    out.append('CC_BCONST(%s, "%s", %s)' % (tcxx, name(ck="bconst", op="-", va=p, nb=1), B(p)))
                    out.append('CC_SEL(%s, "%s", %s)' % (tcxx, name(ck="sel", op="select", g=p, nb=nb, rows=2), B(p)))
                for op in ("&", "|", "^", "&&", "||"):
                    a, b = rng.choice(bp), rng.choice(bp)
                    out.append('CC_BOP2(%s, "%s", %s, CCP(%s), CCP(%s))' % (tcxx, name(ck="bop2", op=op, va=a, vb=b, nb=1), op, B(a), B(b)))
                for op in ("!", "~"):
                    a = rng.choice(bp)
                    out.append('CC_BOP1(%s, "%s", %s, CCP(%s))' % (tcxx, name(ck="bop1", op=op, va=a, nb=1), op, B(a)))
                out.append('CC_BGEN(%s, "%s", cc_bgen_lt<%d>)' % (tcxx, name(ck="bgen", op="lt", g=[n // 2 + 1], nb=1), n // 2 + 1))
                out.append('CC_BGEN(%s, "%s", cc_bgen_mod<3>)' % (tcxx, name(ck="bgen", op="mod", g=[3], nb=1)))
                if acc.get((acxx, tcxx, "swizzle_ct")) and acc.get((acxx, tcxx, "swizzle_dyn")):
                    for m in c05.swizzle_masks(n, rng, 2, False)[: ctx.q(12, 40)]:
                        out.append('CC_SWZ(%s, "%s", %s)' % (tcxx, name(ck="swz", op="swizzle", g=m, nb=nb, rows=1), ", ".join(map(str, m))))
                elif an in ("avx512f", "avx512cd", "avx512dq") and tcxx == "uint16_t" and acc.get((acxx, tcxx, "swizzle_dyn")):
                    # only some constant masks are accepted here (aligned contiguous pairs): acceptance probed per mask (CC_SWZ_IF), family with near misses
                    for m in c05.pair_masks(n, rng, ctx.q(2, 12)):
                        out.append('CC_SWZ_IF(%s, "%s", %s)' % (tcxx, name(ck="swz", op="swizzle", g=m, nb=nb, rows=1), ", ".join(map(str, m))))
            out.append("#endif")
    return "\n".join(out) + "\n", cases


def body(ctx):
    ctx.model("BoolAlgebra.tla", timeout=900)
    text, cases = generate(ctx)
    gh = hashlib.sha256(text.encode()).hexdigest()[:16]
    gdir = os.path.join(vf.BUILD, "gen", "const_" + gh)
    os.makedirs(gdir, exist_ok=True)
    with open(os.path.join(gdir, "gen_const.inc"), "w") as f:
        f.write(text)
    ctx.log("generated %d compile-time instantiations" % len(cases))
    tn_of = {x[0]: (x[1], x[2]) for x in ITYPES}
    tn_of.update({x[0]: (x[1], x[2]) for x in FTYPES})
    plan = []
    rng = ctx.rng
    if ctx.replay:
        plan = lanes.replay_plan(ctx.replay)
    else:
        for line in text.splitlines():
            m = re.match(r'CC_\w+\((\w+), "([^"]+)"', line)
            if not m:
                continue
            tn, nb = tn_of[m.group(1)]
            c = cases[m.group(2)]
            if c.get("rows"):
                ra, rb = c05.distinct_row(rng, nb, 1), c05.distinct_row(rng, nb, 2)
                plan.append("cc %s %s 0 %s %s - -" % (m.group(2), tn, ra, rb))
            else:
                plan.append("cc %s %s 0 - - - -" % (m.group(2), tn))
    ctx.log("plan: %d lines" % len(plan))
    events, plan = lanes.record(ctx, "const", plan, "c19", extra_flags=["-I" + gdir, "-DVD_GEN=" + gh])
    for e in events:
        c = cases.get(e["op"])
        if c is None:
            continue
        e["cid"] = e["op"]
        e["ck"], e["op"] = c["ck"], c["op"]
        nb = c["nb"]
        if "va" in c:
            e["va"] = list(vf.pack_lanes(c["va"], nb)) if nb > 0 else c["va"]
        if "vb" in c:
            e["vb"] = list(vf.pack_lanes(c["vb"], nb))
        if "g" in c:
            e["g"] = c["g"]
        if c.get("rows"):
            e["va"], e["vb"] = e.get("a"), e.get("b", e.get("a"))
    ctx.log("events: %d" % len(events))
    lanes.validate(ctx, "T_Const.tla", events, "c19", plan_lines=plan)
    return dict(exhaustive=False,
                rule="%d generated template instantiations over every architecture and element type: batch_constant / batch_bool_constant value packs covering each lane independently (one-hot, all-but-one, ramp, "
                     "boundary values, random) observed through as_batch, get(i), implicit conversion and mask(); generator functors (make_batch_constant / make_batch_bool_constant) from a small grammar; the "
                     "compile-time operators + - * / %% & | ^ ~ unary- && || !; select and swizzle called with the constant and with the converted run-time batch; judged by Xsimd.ConstOK in TLC; "
                     "(shuffle / insert / slide / rotate with constant arguments are judged against their index maps in C05); distinct_nontrivial = distinct judged events" % len(cases),
                extra=dict(programs=len(cases)))


if __name__ == "__main__":
    vf.run_check("C19", "model_checking", body)
