#!/usr/bin/env python3
"""C20 - architecture descriptions and batch geometry are consistent for every ISA/type."""
import json
import os
import sys
sys.path.insert(0, os.path.join(os.path.dirname(os.path.abspath(__file__)), "..", "lib"))
import vf
import lanes


def body(ctx):
    ctx.model("GeometryModel.tla", timeout=600)
    flavours = [("native17", ["-std=c++17", "-O1", "-march=native"]), ("emu", ["-std=c++17", "-O1", "-march=native", "-DXSIMD_WITH_EMULATED=1"]),
                ("native11", ["-std=c++11", "-O1", "-march=native"])]
    if not ctx.quick:
        flavours += [("avx2only", ["-std=c++17", "-O1", "-mavx2", "-mfma"]), ("sse2only", ["-std=c++17", "-O1", "-msse2"]),
                     ("clang", ["-std=c++17", "-O1", "-march=native"])]
    total = 0
    seen_records = set()     # records that are identical in several build flavours count once
    for name, flags in flavours:
        exe = vf.build_single("archdump.cpp", "archdump_" + name, flags, compiler="clang++-14" if name == "clang" else "g++")
        r = vf.sh([exe])
        if r.returncode != 0:
            raise vf.InfraError("archdump failed: " + r.stdout[-500:])
        events = []
        for i, line in enumerate(r.stdout.splitlines()):
            e = json.loads(line)
            e["id"] = i + 1
            e.setdefault("op", e["k"])
            e.setdefault("t", e.get("t", "-"))
            e["flavour"] = name
            events.append(e)
        total += len(events)
        # one stateful trace per flavour (list records are judged against the accumulated architecture records)
        p = os.path.join(ctx.work, "geo_%s.ndjson" % name)
        with open(p, "w") as f:
            for e in events:
                f.write(json.dumps(e, separators=(",", ":")) + "\n")
        rejects, stats, errors = vf.tlc_validate("T_Geometry.tla", [p])
        if errors:
            raise vf.InfraError("TLC failed on geometry dump %s rc=%s\n%s" % errors[0])
        ctx.cov["traces_validated_against_impl"] += 1
        ctx.cov["evaluations"] += stats[0]["events"]
        seen_records.update(json.dumps({k: v for k, v in e.items() if k not in ("id", "archs", "flavour")}, sort_keys=True) for e in events)
        ctx.cov["distinct_nontrivial"] = len(seen_records)
        ctx.cov["trace_families"][name] = stats[0]
        if len(ctx.cov["samples"]) < 6:
            ctx.cov["samples"] += [events[0], events[1], events[-1]]
        if name == flavours[0][0]:
            def corrupt(e, rng):   # binding probe: one geometric quantity of one record off by one / doubled
                fs = [k for k in ("size", "sizeof_batch", "batch_align", "mask_lanes", "alignment", "lanes", "as_int_lanes", "sret_lanes", "spos") if isinstance(e.get(k), int) and e[k] > 0]
                if not fs:
                    return None
                c = dict(e)
                f = rng.choice(fs)
                c[f] = e[f] * 2 if rng.random() < 0.5 else e[f] + 1
                return c
            lanes.stateful_probe(ctx, "T_Geometry.tla", events, "geo_" + name, corrupt)
        for rj in rejects[:10]:
            lines = [json.dumps(events[int(rj["id"]) - 1]), "# " + json.dumps(rj)]
            pth = ctx.write_replay("geom-%s-%s" % (name, rj["id"]), lines)
            ctx.violations.append(("geometry record rejected (%s, flavour %s): %s" % (rj.get("op"), name, rj.get("rec", "")[:300]), pth))
    ctx.log("geometry records: %d over %d flavours" % (total, len(flavours)))
    return dict(exhaustive=True,
                rule="every (architecture, element type) pair, every architecture record (alignment, inheritance chain, list positions), the all_x86/supported/custom "
                     "arch_lists and make_sized_batch_t<T,N> for N in {1,2,3,4,8,...,128}, dumped from the real headers per build flavour (C++17, C++11, emulated"
                     "%s) and judged record by record by Geometry.tla in TLC; the space is finite and dumped completely; distinct_nontrivial = distinct records (a record dumped identically by several build flavours counts once)"
                     % ("" if ctx.quick else ", AVX2-only, SSE2-only, clang"))


if __name__ == "__main__":
    vf.run_check("C20", "model_checking", body)
