#!/usr/bin/env python3
"""C13 - element-wise results depend only on the lane's own operands, not on neighbours."""
import os
import sys
sys.path.insert(0, os.path.join(os.path.dirname(os.path.abspath(__file__)), "..", "lib"))
import vf
import lanes
import fpgen
sys.path.insert(0, os.path.dirname(os.path.abspath(__file__)))
import c01
import c02
import c07
import c03
import c06
import c08

FT = [("f32", 4, 8, 23), ("f64", 8, 11, 52)]
MATH = ["exp", "exp2", "exp10", "expm1", "log", "log2", "log10", "log1p", "sin", "cos", "tan", "asin", "acos", "atan", "sinh", "cosh", "tanh",
        "asinh", "acosh", "atanh", "cbrt", "erf", "erfc", "tgamma", "lgamma"]
EXACTF = ["sqrt", "rint", "nearbyint", "fabs"]
# classes that sit on both sides of the whole-batch any()/all() tests of the kernels (Appendix C of DESIGN.md)
CLASSES = {
    "tiny": lambda r: (r.random() + 0.5) * 2.0 ** r.randint(-60, -20),
    "small": lambda r: r.random() * 0.49,
    "mid": lambda r: 0.5 + r.random() * 1.7,
    "u1": lambda r: 0.6 + r.random() * 0.1,
    "u2": lambda r: 2.1 + r.random() * 0.2,
    "med": lambda r: 3.0 + r.random() * 10.0,
    "big": lambda r: 20.0 + r.random() * 60.0,
    "large": lambda r: (r.random() + 1.0) * 2.0 ** r.randint(7, 17),
    "huge": lambda r: (r.random() + 1.0) * 2.0 ** r.randint(20, 60),
    "gneg": lambda r: -(33.0 + r.random() * 4.0),
}


def value(rng, bits, cls):
    if cls == "xmax":      # the top binades of the format (an internal rescaling of ANOTHER lane's class must not push them over)
        return fpgen.f2b((1.0 + rng.random()) * 2.0 ** (rng.randint(100, 126) if bits == 32 else rng.randint(990, 1022)) * rng.choice((1, 1, -1)), bits)
    if cls == "xmin":      # the smallest normal binades
        return fpgen.f2b((1.0 + rng.random()) * 2.0 ** (rng.randint(-125, -100) if bits == 32 else rng.randint(-1021, -990)) * rng.choice((1, 1, -1)), bits)
    if cls == "neg":       # ordinary negative values (outside the domain of log, sqrt, ...)
        return fpgen.f2b(-(0.1 + rng.random() * 20.0), bits)
    if cls == "nan":
        return fpgen.f2b(float("nan"), bits)
    if cls == "inf":
        return fpgen.f2b(float("inf") * rng.choice((1, -1)), bits)
    if cls == "zero":
        return fpgen.f2b(0.0 * rng.choice((1, -1)), bits)
    if cls == "sub":
        return rng.randint(1, 1 << 20) | (rng.getrandbits(1) << (bits - 1))
    v = CLASSES[cls](rng)
    return fpgen.f2b(v * (1 if cls == "gneg" else rng.choice((1, 1, -1))), bits)


def mixed_rows(ctx, bits, L):
    rng = ctx.rng
    names = list(CLASSES) + ["nan", "inf", "zero", "sub", "xmax", "xmin", "neg"]
    rows = []
    # EVERY ordered pair of classes: all lanes of class c except one lane of class d (one huge lane among denormals, a NaN neighbour, ...);
    # the values come from a pool of two per class, so that the broadcast rows they are compared with are shared
    pool = {c: [value(rng, bits, c) for _ in range(2)] for c in names}
    for c in names:
        for d in names:
            if c != d:
                k = rng.randrange(L)
                rows.append([pool[d][rng.randrange(2)] if i == k else pool[c][(i + k) % 2] for i in range(L)])
    for c in names:                       # the same with fresh random values of the classes
        for d in rng.sample(names, ctx.q(1, 6)):
            k = rng.randrange(L)
            rows.append([value(rng, bits, d if i == k else c) for i in range(L)])
    for _ in range(ctx.q(6, 60)):         # fully mixed
        rows.append([value(rng, bits, rng.choice(names)) for _ in range(L)])
    for c, d in (("small", "mid"), ("u1", "u2"), ("mid", "big"), ("big", "large"), ("large", "huge"), ("small", "gneg"), ("med", "gneg")):
        rows.append([value(rng, bits, c if i % 2 else d) for i in range(L)])   # values on both sides of a threshold, alternating
    return rows


def body(ctx):
    plan = []
    rel = []    # (op, t, exact, mixed line id, [bcast line ids], nb)
    if ctx.replay:
        # a replay file holds the mixed-row (or broadcast) plan line of each rejected event; the broadcast lines are a function of it
        for line in lanes.replay_plan(ctx.replay):
            f = line.split()
            if f[0] != "m1":
                continue
            nb = 4 if f[2] == "f32" else 8
            L = 64 // nb
            row = bytes.fromhex(f[4])
            plan.append(line)
            mid = len(plan)
            bids = []
            for k in range(L):
                plan.append("m1 %s %s 0 %s - - -" % (f[1], f[2], (row[k * nb:(k + 1) * nb] * L).hex()))
                bids.append(len(plan))
            rel.append((f[1], f[2], 0 if f[1] in MATH else 1, mid, bids, nb))
    for t, nb, E, M in ([] if ctx.replay else FT):
        bits = 8 * nb
        L = 64 // nb
        rows = mixed_rows(ctx, bits, L)
        for op in MATH + EXACTF:
            rr = rows if op in MATH else rows[:: 3]
            bline = {}                       # value -> plan line of its broadcast (shared between the rows)
            for r in rr:
                plan.append("m1 %s %s 0 %s - - -" % (op, t, vf.hexrow(vf.pack_lanes(r, nb))))
                mid = len(plan)
                bids = []
                for k in range(L):
                    if r[k] not in bline:
                        plan.append("m1 %s %s 0 %s - - -" % (op, t, vf.hexrow(vf.pack_lanes([r[k]] * L, nb))))
                        bline[r[k]] = len(plan)
                    bids.append(bline[r[k]])
                rel.append((op, t, 0 if op in MATH else 1, mid, bids, nb))
    ctx.log("plan: %d lines, %d mixed rows" % (len(plan), len(rel)))
    events, plan = lanes.record(ctx, "math", plan, "c13", watchdog_ms=2000)
    byline = lanes.results_by_line(events)
    out = [e for e in events if e["k"] == "fault"]
    bcast_ids = {b for r in rel for b in r[4]}
    seen_bc = set()
    for e in events:
        if e["k"] == "m1" and e["id"] in bcast_ids:
            key = (e["op"], e["t"], tuple(e["r"]))
            if key not in seen_bc:
                seen_bc.add(key)
                out.append(dict(e, k="bc"))
    for op, t, exact, mid, bids, nb in rel:
        groups = {}
        for arch, em in byline.get(mid, {}).items():
            if em["k"] == "fault":
                continue
            r2 = []
            ok = True
            for k, b in enumerate(bids):
                eb = byline.get(b, {}).get(arch)
                if eb is None or eb["k"] == "fault":
                    ok = False
                    break
                r2 += eb["r"][k * nb:(k + 1) * nb]
            if not ok:
                continue
            key = (tuple(em["r"]), tuple(r2))
            if key not in groups:
                groups[key] = dict(id=mid, k="mix", op=op, t=t, exact=exact, a=em["a"], r=em["r"], r2=r2, archs=[])
            groups[key]["archs"].append(arch)
        out += list(groups.values())
    ctx.log("events: %d recorded, %d judged" % (len(events), len(out)))
    lanes.validate(ctx, "T_Math.tla", out, "c13", plan_lines=plan)
    # the exact operations of C01/C02/C07: rows whose lanes hold different values, each lane judged against the scalar meaning of ITS operands
    # (T_Int / T_Float) - a result that depends on a neighbouring lane (a carry leaking across an emulated 8-bit multiply, ...) is rejected
    if ctx.replay:
        xl = [l for l in lanes.replay_plan(ctx.replay) if l.split()[0] != "m1"]
        ip = [l for l in xl if l.split()[2] not in ("f32", "f64")]
        fp = [l for l in xl if l.split()[2] in ("f32", "f64") and l.split()[0] not in ("cmp", "sel")]
        ip = [l for l in ip if l.split()[0] not in ("cmp", "sel")]
        cp = [l for l in xl if l.split()[0] in ("cmp", "sel")]
        vp = [l for l in xl if l.split()[0] == "cv"]
        ip = [l for l in ip if l.split()[0] != "cv"]
        fp = [l for l in fp if l.split()[0] != "cv"]
    else:
        # (operations with a recorded deviation of C02/C07 - signed rotates, ldexp, frexp - are wrong in a lane-independent way: not C13's subject)
        skip = lambda l: (l.split()[1] in ("ldexp", "frexp")) or (l.split()[1].startswith("rot") and l.split()[2][0] == "i")
        ip = [l for l in c01.make_plan(ctx)[:: ctx.q(5, 2)] + c07.make_plan(ctx)[:: ctx.q(9, 3)] if not skip(l)]
        fp = [l for l in c02.make_plan(ctx)[:: ctx.q(5, 2)] if not skip(l)]
        # lane-wise comparisons and select (C03): a predicate lane must not depend on its neighbours either (an emulated 16-bit
        # compare built from 32-bit compares, a 64-bit compare built from 32-bit halves, ...)
        cp = [l for l in c03.make_plan(ctx) if l.split()[0] in ("cmp", "sel")][:: ctx.q(4, 2)]
        # rounding functions (C08) join the float slice; conversions (C06: the magic-number emulations blend 16-bit groups of neighbouring lanes)
        fp += c08.make_plan(ctx)[:: ctx.q(3, 2)]
        vp = c06.make_plan(ctx)[:: ctx.q(4, 2)]
    if ip:
        ev, ip = lanes.record(ctx, "int", ip, "c13int")
        lanes.validate(ctx, "T_Int.tla", ev, "c13int", plan_lines=ip)
    if fp:
        ev, fp = lanes.record(ctx, "float", fp, "c13flt")
        lanes.validate(ctx, "T_Float.tla", ev, "c13flt", plan_lines=fp)
    if vp:
        ev, vp = lanes.record(ctx, "cvt", vp, "c13cvt")
        lanes.validate(ctx, "T_Cvt.tla", c06.split_to(ev), "c13cvt", plan_lines=vp)
    if cp:
        ev, cp = lanes.record(ctx, "bool", cp, "c13cmp")
        lanes.validate(ctx, "T_Bool.tla", c03.split_src(ev), "c13cmp", plan_lines=cp)
    return dict(exhaustive=False,
                rule="for every elementary function (25) and 4 exact float operations, float and double, 22 architectures + scalar: rows mixing operand classes on both sides of every whole-batch "
                     "any()/all() test (tiny/small/mid/medium/big/large/huge/negative-gamma/NaN/inf/zero/subnormal/top binades/smallest normals/negative; EVERY ordered pair of classes as (companions, one outlier lane), alternating, fully mixed), and for EVERY lane position the same value "
                     "broadcast; TLC requires lane k of f(mixed) to agree with f(broadcast(x[k])) - bit for bit for exact operations, within 2B+1 ordinals and equal special class for elementary functions - "
                     "and all lanes of a broadcast to be identical; (the exact integer/float operations of C01-C08 are judged lane by lane against their scalar meaning there); "
                     "distinct_nontrivial = distinct judged events whose result differs from the operand row")


if __name__ == "__main__":
    vf.run_check("C13", "exploration", body)
