#!/usr/bin/env python3
"""C04 - loads/stores transfer exactly one register: lane i <-> element i, no other byte."""
import os
import sys
sys.path.insert(0, os.path.join(os.path.dirname(os.path.abspath(__file__)), "..", "lib"))
import vf
import lanes

TYPES = [("i8", 1), ("u8", 1), ("i16", 2), ("u16", 2), ("i32", 4), ("u32", 4), ("i64", 8), ("u64", 8), ("f32", 4), ("f64", 8)]
ST_U = ["store_unaligned", "xstore_unaligned", "store_tag_u", "store_as_u"]
ST_A = ["store_aligned", "xstore_aligned", "store_tag_a", "store_as_a"]
LD_U = ["load_unaligned", "xload_unaligned", "load_tag_u", "load_as_u", "batch_load_tag_u"]
LD_A = ["load_aligned", "xload_aligned", "load_tag_a", "load_as_a", "batch_load_tag_a"]
PAGE = 4096


def wrow(w):
    return bytes([w]).ljust(64, b"\0").hex()


def datarow(rng, nb, w, salt):
    """register contents: distinct lanes, never equal to the canary at any offset, incl. signalling-NaN-looking patterns"""
    vals = []
    for i in range(64 // nb):
        v = rng.getrandbits(8 * nb)
        if nb >= 4 and i % 4 == 1:
            v = ((0x7fa0 if nb == 4 else 0x7ff4) << (8 * nb - 16)) | (rng.getrandbits(8 * nb - 16) | 1)     # signalling NaN payload
        vals.append(v)
    return vf.hexrow(vf.pack_lanes(vals, nb))


def offsets_unaligned(ctx, size):
    ks = list(range(64)) if not ctx.quick else [0, 1, 2, 3, 5, 7, 8, 9, 15, 16, 17, 31, 32, 33, 47, 63]
    offs = [k for k in ks] + [PAGE - size - k for k in ks] + [2048 - size // 2 + k for k in ks[:4]]
    return sorted({o for o in offs if 0 <= o <= PAGE - size})


def complex_plan(ctx):
    """interleaved complex loads/stores (shared with C16): memory element i = (re_i, im_i) <-> lane i of the real and imaginary registers"""
    rng = ctx.rng
    plan = []
    for t, nb in (("f32", 4), ("f64", 8)):
        for w in (16, 32, 64):
            rows = [datarow(rng, nb, w, 1), datarow(rng, nb, w, 2)]
            for off in offsets_unaligned(ctx, 2 * w)[:: ctx.q(2, 1)]:
                plan.append("cst store_unaligned %s %d %s %s - %s" % (t, off, rows[0], rows[1], wrow(w)))
                plan.append("cld load_unaligned %s %d %s - - %s" % (t, off, (rows[0] + rows[1])[: 4 * w].ljust(512, "0")[:512], wrow(w)))
            for off in sorted({0, 2 * w, PAGE - 2 * w, PAGE - 4 * w, 2048}):
                plan.append("cst store_aligned %s %d %s %s - %s" % (t, off, rows[0], rows[1], wrow(w)))
                plan.append("cld load_aligned %s %d %s - - %s" % (t, off, (rows[0] + rows[1])[: 4 * w].ljust(512, "0")[:512], wrow(w)))
    return plan


def body(ctx):
    ctx.model("MemModel.tla", timeout=600)
    rng = ctx.rng
    plan = []
    if ctx.replay:
        plan = lanes.replay_plan(ctx.replay)
    else:
        for t, nb in TYPES:
            for w in (16, 32, 64):
                n = w // nb
                rows = [datarow(rng, nb, w, s) for s in range(ctx.q(1, 8))]
                for off in offsets_unaligned(ctx, w):
                    r = rows[off % len(rows)]
                    for op in ST_U:
                        plan.append("st %s %s %d %s - - %s" % (op, t, off, r, wrow(w)))
                    for op in LD_U:
                        plan.append("ld %s %s %d %s - - %s" % (op, t, off, r, wrow(w)))
                for off in sorted({0, w, 2 * w, 2048, PAGE - w, PAGE - 2 * w, PAGE - 3 * w}):
                    r = rows[(off // w) % len(rows)]
                    for op in ST_A:
                        plan.append("st %s %s %d %s - - %s" % (op, t, off, r, wrow(w)))
                    for op in LD_A:
                        plan.append("ld %s %s %d %s - - %s" % (op, t, off, r, wrow(w)))
                # bool arrays (n bytes)
                for off in offsets_unaligned(ctx, n)[:: ctx.q(2, 1)]:
                    m = bytes(rng.getrandbits(1) * rng.choice((1, 1, 255, 2)) for _ in range(n)).ljust(64, b"\0").hex()
                    plan.append("st bool_store_unaligned %s %d %s - - %s" % (t, off, m, wrow(w)))
                    plan.append("ld bool_load_unaligned %s %d %s - - %s" % (t, off, bytes((b != 0) for b in bytes.fromhex(m)).hex(), wrow(w)))
                # ... and their aligned spellings (own kernels on avx512bw: a byte compare into a mask register) at register-aligned addresses,
                # the last one ending flush with the page; found missing by tools/coverage.py (DESIGN 0.9)
                for off in sorted({0, w, 2048, PAGE - w}):
                    m = bytes(rng.getrandbits(1) * rng.choice((1, 1, 255, 2)) for _ in range(n)).ljust(64, b"\0").hex()
                    plan.append("st bool_store_aligned %s %d %s - - %s" % (t, off, m, wrow(w)))
                    plan.append("ld bool_load_aligned %s %d %s - - %s" % (t, off, bytes((b != 0) for b in bytes.fromhex(m)).hex(), wrow(w)))
                # gather / scatter: table of n elements flush against either page edge
                for off in (0, PAGE - w, 1024 + nb):
                    if off % nb:
                        off -= off % nb
                    for _ in range(ctx.q(4, 160)):
                        perm = list(range(n))
                        rng.shuffle(perm)
                        anyidx = [rng.randrange(n) for _ in range(n)]
                        plan.append("ga scatter %s %d %s %s - %s" % (t, off, rows[0], vf.hexrow(vf.pack_lanes(perm, nb)).ljust(128, "0"), wrow(w)))
                        plan.append("ga gather %s %d %s %s - %s" % (t, off, rows[0], vf.hexrow(vf.pack_lanes(anyidx, nb)).ljust(128, "0"), wrow(w)))
                    for special in ([0] * n, [n - 1] * n, list(range(n)), list(range(n - 1, -1, -1))):
                        plan.append("ga gather %s %d %s %s - %s" % (t, off, rows[0], vf.hexrow(vf.pack_lanes(special, nb)).ljust(128, "0"), wrow(w)))
                plan.append("ln broadcast %s 0 %s - - %s" % (t, rows[0], wrow(w)))
                plan.append("ln ctor_bcast %s 0 %s - - %s" % (t, rows[0], wrow(w)))
                plan.append("ln get %s 0 %s - - %s" % (t, rows[0], wrow(w)))
                for r in rows:
                    plan.append("ln ctor_list %s 0 %s - - %s" % (t, r, wrow(w)))
                for _ in range(ctx.q(2, 8)):
                    plan.append("ln bool_ctor_list %s 0 %s - - %s" % (t, bytes(rng.getrandbits(1) for _ in range(n)).ljust(64, b"\0").hex(), wrow(w)))
        # converting gather / scatter: a table of n elements of another type, converted on access (C06 meaning per element)
        import struct
        for t, nb, u, nu in (("f32", 4, "f64", 8), ("i32", 4, "f64", 8), ("f64", 8, "f32", 4), ("i64", 8, "f32", 4)):
            pk = (lambda v: struct.pack("<d", v)) if u == "f64" else (lambda v: struct.pack("<f", v))
            for w in (16, 32, 64):
                n = w // nb
                for off in (0, PAGE - n * nu, 1024 + nu):
                    for _ in range(ctx.q(4, 160)):
                        if t[0] == "f":       # values that need rounding, tiny, huge, negative zero, exactly representable
                            tv = [rng.choice([rng.uniform(-1e6, 1e6), 1.0 + 2.0 ** -rng.randint(20, 40), -0.0, rng.uniform(-1, 1) * 2.0 ** rng.randint(-60, 60), float(rng.randint(-99, 99))]) for _ in range(n)]
                        else:                 # in-range values with fractions (truncation toward zero)
                            tv = [rng.choice([rng.uniform(-2.0 ** 31 + 1, 2.0 ** 31 - 200), rng.randint(-9, 9) + rng.choice((0.5, -0.5, 0.99, -0.99, 0.0)), float(rng.randint(-2 ** 24, 2 ** 24))]) for _ in range(n)]
                        tb = b"".join(pk(v) for v in tv).ljust(128, b"\0")
                        anyidx = [rng.randrange(n) for _ in range(n)]
                        plan.append("ga gather_cv:%s %s %d %s %s %s %s" % (u, t, off, tb[:64].hex(), vf.hexrow(vf.pack_lanes(anyidx, nb)).ljust(128, "0"), tb[64:128].hex(), wrow(w)))
                        plan.append("ga gather_cv:%s %s %d %s %s %s %s" % (u, t, off, tb[:64].hex(), vf.hexrow(vf.pack_lanes(list(range(n - 1, -1, -1)), nb)).ljust(128, "0"), tb[64:128].hex(), wrow(w)))
                        perm = list(range(n))
                        rng.shuffle(perm)
                        if t[0] == "f":
                            xs = [rng.choice([rng.uniform(-1e6, 1e6), -0.0, float(rng.randint(-99, 99)), rng.uniform(-1, 1) * 2.0 ** rng.randint(-30, 30)]) for _ in range(n)]
                            xr = b"".join((struct.pack("<f", v) if nb == 4 else struct.pack("<d", v)) for v in xs)
                        else:
                            xr = bytes(vf.pack_lanes([rng.choice([rng.randint(-2 ** 24, 2 ** 24), rng.randint(-2 ** (8 * nb - 1), 2 ** (8 * nb - 1) - 1), 0, -1]) for _ in range(n)], nb))
                        plan.append("ga scatter_cv:%s %s %d %s %s - %s" % (u, t, off, xr.ljust(64, b"\0").hex(), vf.hexrow(vf.pack_lanes(perm, nb)).ljust(128, "0"), wrow(w)))
        plan += complex_plan(ctx)
    ctx.log("plan: %d lines" % len(plan))
    events, plan = lanes.record(ctx, "mem", plan, "c04")
    for e in events:
        e.pop("d", None)
        if ":" in e["op"]:
            e["op"], e["u"] = e["op"].split(":")
    ctx.log("events: %d" % len(events))
    lanes.validate(ctx, "T_Mem.tla", events, "c04", plan_lines=plan)
    return dict(exhaustive=False,
                rule="every load/store spelling (member, free function, tag, load_as/store_as; aligned and unaligned), bool-array and interleaved-complex variants, gather/scatter, broadcast and get "
                     "for all 10 element types (+ complex<float/double>, bool) and the three register widths on 22 architectures, at every byte offset of a cache line (quick: 16 of 64) with the range flush against "
                     "the start and the end of a page bracketed by PROT_NONE guard pages (any access outside the range faults) and canary pre-fill of the whole page (any stray write is in the reported diff); "
                     "judged by Mem.StoreObservedOK/LoadObservedOK in TLC; data patterns are sampled; distinct_nontrivial = distinct events")


if __name__ == "__main__":
    vf.run_check("C04", "model_checking", body)
