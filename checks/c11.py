#!/usr/bin/env python3
"""C11 - double-precision elementary functions meet a per-function ulp bound (sampled against a tabulated Exact)."""
import os
import sys
sys.path.insert(0, os.path.dirname(os.path.abspath(__file__)))
import acc_common
import vf

if __name__ == "__main__":
    vf.run_check("C11", "exploration", lambda ctx: acc_common.run(ctx, "C11", "f64", 64, 8))
