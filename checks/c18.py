#!/usr/bin/env python3
"""C18 - aligned_allocator returns aligned, sufficiently large, releasable storage."""
import json
import os
import sys
sys.path.insert(0, os.path.join(os.path.dirname(os.path.abspath(__file__)), "..", "lib"))
import vf
import lanes

TS = [1, 4, 8, 48]
ALIGNS = [8, 16, 32, 64, 128, 256, 512, 1024, 2048, 4096]
SIZE_MAX = (1 << 64) - 1


def u64(v):
    return (v & SIZE_MAX).to_bytes(8, "little")


def n_values(rng, sz):
    c = rng.random()
    if c < 0.45:
        return rng.randint(0, 64)
    if c < 0.7:
        k = rng.randint(1, 22)
        return max(0, (1 << k) + rng.choice([-1, 0, 1]))
    if c < 0.8:
        return rng.choice([SIZE_MAX // sz, SIZE_MAX // sz + 1, SIZE_MAX // sz - 1, SIZE_MAX, SIZE_MAX - 1, (1 << 63), (1 << 63) // sz + 1,
                           (1 << 64) // sz + 1 if sz > 1 else SIZE_MAX, ((1 << 64) + 4096) // sz + 1 if sz > 1 else SIZE_MAX, (1 << 62) + 5])
    if c < 0.9:
        return rng.randint(1 << 40, 1 << 60)       # far beyond physical memory: failure (or a lazily committed block)
    return rng.randint(65, 5000)


def history(rng, nops):
    """one allocator history: plan lines; every block is released at the end"""
    lines = []
    slots = {}
    for _ in range(nops):
        if slots and (len(slots) >= 20 or rng.random() < 0.4):
            s = rng.choice(sorted(slots))
            t, a = slots.pop(s)
            lines.append("al deallocate:%d:%d - %d - - - -" % (t, a, s))
        else:
            s = rng.choice([i for i in range(64) if i not in slots])
            t, a = rng.choice(TS), rng.choice(ALIGNS)
            lines.append("al allocate:%d:%d - %d %s - - -" % (t, a, s, u64(n_values(rng, t)).ljust(64, b"\0").hex()))
            slots[s] = (t, a)
    for s in sorted(slots):
        t, a = slots[s]
        lines.append("al deallocate:%d:%d - %d - - - -" % (t, a, s))
    return lines


def tlc_histories(ctx):
    """spec -> impl: every complete command history of the small client language of spec/AllocGen.tla, enumerated by TLC (BFS);
    returns a list of plan-line lists"""
    import subprocess
    md = os.path.join(vf.BUILD, "tlc", "allocgen_%d" % os.getpid())
    cfg = os.path.join(ctx.work, "AllocGen.cfg")
    with open(cfg, "w") as f:
        f.write("CONSTANTS Depth = %d\n MinLen = %d\n MaxLive = %d\n Elts = {1, 48}\n Aligns = {16, 64, 4096}\n Counts = {0, 1, %s}\n"
                "INIT Init\nNEXT Next\nINVARIANT Emit\nCONSTRAINT Bound\nCHECK_DEADLOCK FALSE\n" % (ctx.q(4, 6), ctx.q(4, 6), ctx.q(2, 2), ctx.q("3", "3, 1000")))
    r = vf.sh(vf.tlc_cmd("AllocGen.tla", cfg, md, 4, "4g"), cwd=vf.SPEC, timeout=1800)
    import shutil
    shutil.rmtree(md, ignore_errors=True)
    hs = []
    for line in r.stdout.splitlines():
        if line.startswith('"HIST '):
            hist = json.loads(json.loads(line)[5:])
            pl = []
            for c in hist:
                if c["op"] == "allocate":
                    pl.append("al allocate:%d:%d - %d %s - - -" % (c["t"], c["a"], c["slot"], u64(c["n"]).ljust(64, b"\0").hex()))
                else:
                    pl.append("al deallocate:%d:%d - %d - - - -" % (c["t"], c["a"], c["slot"]))
            hs.append(pl)
    if r.returncode != 0 or not hs:
        raise vf.InfraError("AllocGen produced no histories (rc=%d)\n%s" % (r.returncode, r.stdout[-1500:]))
    return hs


def annotate(e):
    parts = e["op"].split(":")
    e["kind"] = parts[0]
    if parts[0] in ("allocate", "deallocate", "maxsize", "rebind"):
        e["sz"], e["align"] = int(parts[1]), int(parts[2])
        if "a" in e:
            e["a"] = e["a"][:8]
    elif parts[0] == "alloc_eq":
        e["a1"], e["a2"] = int(parts[1]), int(parts[2])
    elif parts[0] == "offset":
        e["sz"] = int(parts[1])
    return e


def body(ctx):
    ctx.model("AllocModel.tla", timeout=900)
    # unbounded safety of the design: HeapInv is an inductive invariant of allocate/deallocate over the integers (Apalache)
    for init, length in (("Init", 0), ("IndInit", 1)):
        r = vf.apalache_check("AllocInd.tla", init, "HeapInv", length)
        ctx.cov["model_runs"].append(dict(cfg="apalache AllocInd.tla --init=%s --inv=HeapInv --length=%d" % (init, length), ok=r["ok"], distinct=0, generated=0, wall_s=round(r["wall"], 1)))
        ctx.log("apalache AllocInd %s: ok=%s %.1fs" % (init, r["ok"], r["wall"]))
        if not r["ok"]:
            raise vf.InfraError("Apalache: HeapInv is not inductive (%s)\n%s" % (init, r["out"]))
    exe = vf.build("none", "none", extra_flags=["-march=native"], extra_srcs=["alloc_tu.cpp"], link_flags=["-Wl,--wrap=posix_memalign", "-Wl,--wrap=free"])
    rng = ctx.rng
    nh, nops = ctx.q(48, 8000), ctx.q(50, 50)
    traces = []
    allplans = []
    per = ctx.q(6, 25)
    nid = 0
    # spec -> impl: the complete command histories enumerated by TLC from AllocGen.tla come first, the seeded random ones after them
    gen = [] if ctx.replay else tlc_histories(ctx)
    ctx.log("TLC-generated command histories (AllocGen): %d" % len(gen))
    ctx.cov["tlc_generated_histories"] = len(gen)
    nh += len(gen)
    per = max(per, (nh + 63) // 64)          # at most 64 processes / traces
    groups = [list(range(i, min(i + per, nh))) for i in range(0, nh, per)]
    if ctx.replay:
        groups = [[0]]
    for gi, grp in enumerate(groups):
        evs = []
        for h in grp:
            pl = lanes.replay_plan(ctx.replay) if ctx.replay else (gen[h] if h < len(gen) else history(rng, nops))
            pth = os.path.join(ctx.work, "h%d.plan" % h)
            with open(pth, "w") as f:
                f.write("\n".join(pl) + "\n")
            vf.run_plan(exe, pth, pth + ".out")     # one process per history
            for line in open(pth + ".out"):
                e = annotate(json.loads(line))
                e["id"] += nid
                evs.append(e)
            nid += len(pl)
            allplans += pl
            # system blocks (posix_memalign) still outstanding when the client has released everything: the last logged count of this process
            sysn = 0
            for e in reversed(evs):
                if e.get("kind") in ("allocate", "deallocate") and e["id"] > nid - len(pl):
                    sysn = e["r"][27] if e["kind"] == "allocate" else e["r"][9]
                    break
            evs.append(dict(id=nid, k="al", op="quiesce", t="-", kind="quiesce", sys=sysn, archs=["allocator"]))
            os.remove(pth)
            os.remove(pth + ".out")
        traces.append(evs)
    # stateless observations: exhaustive small domain
    st = []
    for sz in (1, 2, 4, 8):
        for block in (1, 2, 4, 8, 16):
            for size in list(range(0, 21)) if not ctx.quick else (0, 1, 2, 3, 5, 8, 15, 16, 17, 20):
                for pres in range(64):
                    base = 0x7f0000001000 if (pres + size) % 2 else 0x10000
                    st.append("al offset:%d - 0 %s - - -" % (sz, (u64(base + pres) + u64(size) + u64(block)).ljust(64, b"\0").hex()))
    for arch in ("sse2", "sse4_2", "avx", "avx2", "fma3_avx2", "avx512f", "avx512bw", "default"):
        for pres in range(0, 129):
            for base in (0, 0x7ffe00001000):
                st.append("al is_aligned:%s - 0 %s - - -" % (arch, u64(base + pres).ljust(64, b"\0").hex()))
    for t in TS:
        for a in ALIGNS:
            st.append("al maxsize:%d:%d - 0 - - - -" % (t, a))
            for n in (1, 3, 17, 1000):
                st.append("al rebind:%d:%d - %d %s - - -" % (t, a, n & 1, u64(n).ljust(64, b"\0").hex()))
    for a1, a2 in ((8, 8), (8, 16), (16, 8), (16, 16), (32, 64), (64, 64), (64, 32), (4096, 4096), (4096, 2048)):
        st.append("al alloc_eq:%d:%d - 0 - - - -" % (a1, a2))
    for n in (1, 2, 7, 64):
        st.append("al default_alloc - 0 %s - - -" % u64(n).ljust(64, b"\0").hex())
    pth = os.path.join(ctx.work, "st.plan")
    with open(pth, "w") as f:
        f.write("\n".join(st) + "\n")
    vf.run_plan(exe, pth, pth + ".out")
    sev = []
    for line in open(pth + ".out"):
        e = annotate(json.loads(line))
        e["id"] += nid
        sev.append(e)
    allplans += st
    ctx.log("histories: %d (%d events), stateless events: %d" % (nh, sum(len(t) for t in traces), len(sev)))
    # every history group is one stateful trace (validated whole, in parallel with the others)
    files = []
    for gi, evs in enumerate(traces):
        p = os.path.join(ctx.work, "hist%03d.ndjson" % gi)
        with open(p, "w") as f:
            for e in evs:
                f.write(json.dumps(e, separators=(",", ":")) + "\n")
        files.append(p)
    rejects, stats, errors = vf.tlc_validate("T_Alloc.tla", files)
    if errors:
        raise vf.InfraError("TLC failed on allocator history %s rc=%s\n%s" % errors[0])
    def corrupt(e, rng):   # binding probe: a returned pointer one byte off its alignment, or a request answered for another size class
        if e.get("kind") != "allocate" or not isinstance(e.get("r"), list) or not any(e["r"][:8]):
            return None
        c = dict(e)
        c["r"] = list(e["r"])
        c["r"][0] ^= 1 << rng.randrange(3)
        return c
    lanes.stateful_probe(ctx, "T_Alloc.tla", traces[0], "c18hist", corrupt)
    fam = ctx.cov["trace_families"].setdefault("c18hist", dict(events=0, accepted=0, rejected=0))
    for s in stats:
        for k in fam:
            fam[k] += s.get(k, 0)
        ctx.cov["evaluations"] += s.get("events", 0)
    ctx.cov["traces_validated_against_impl"] += len(files)
    ctx.cov["distinct_nontrivial"] += len({(e["op"], tuple(e.get("a", ()))) for evs in traces for e in evs if e.get("kind") == "allocate"})
    ctx.cov["samples"] += [{k: v for k, v in e.items() if k in ("op", "a", "r", "imm")} for e in traces[0][:4]]
    byid = {e["id"]: e for evs in traces for e in evs}
    grp = {}
    for rj in rejects:
        grp.setdefault((rj.get("op", "?").split(":")[0], rj.get("why", "?")), []).append(rj)
    for (op, why), lst in sorted(grp.items()):
        lines = []
        for rj in lst[:20]:
            i = int(rj["id"])
            if 1 <= i <= len(allplans):
                lines.append(allplans[i - 1])
            lines.append("# " + json.dumps(dict(reject=rj, event=byid.get(i)), separators=(",", ":")))
        p = ctx.write_replay("hist-%s-%s" % (op, vf.slug(why)), lines)
        ctx.violations.append(("%d rejected %s event(s): %s; first %s" % (len(lst), op, why, {k: v for k, v in lst[0].items() if k != "trace"}), p))
    lanes.validate(ctx, "T_Alloc.tla", sev, "c18", plan_lines=allplans)
    return dict(exhaustive=False,
                rule="%d seeded random allocate/deallocate histories x ~%d operations (<= 20 live blocks, T in {1,4,8,48 bytes}, alignments 8..4096, n from "
                     "{0..64, 2^k+-1, near SIZE_MAX/sizeof(T), SIZE_MAX, huge}), every block pattern-filled and re-read before release; is_aligned on all residues "
                     "mod 128 x 8 architectures and get_alignment_offset on all (residue mod 64, size, block, sizeof) exhaustively; judged by Alloc.tla actions in TLC "
                     "with the heap invariant checked in every state; distinct_nontrivial = distinct allocate requests" % (nh, nops))


if __name__ == "__main__":
    vf.run_check("C18", "model_checking", body)
