#!/usr/bin/env python3
"""C15 - an ISA is reported available only if CPU+OS support it; dispatch picks the first available."""
import hashlib
import json
import os
import sys
sys.path.insert(0, os.path.join(os.path.dirname(os.path.abspath(__file__)), "..", "lib"))
import vf
import lanes

NF = 20
ARCH_CXX = ["xsimd::sse2", "xsimd::sse3", "xsimd::ssse3", "xsimd::sse4_1", "xsimd::sse4_2", "xsimd::fma3<xsimd::sse4_2>", "xsimd::fma4",
            "xsimd::avx", "xsimd::fma3<xsimd::avx>", "xsimd::avx2", "xsimd::avxvnni", "xsimd::fma3<xsimd::avx2>", "xsimd::avx512f",
            "xsimd::avx512cd", "xsimd::avx512dq", "xsimd::avx512bw", "xsimd::avx512er", "xsimd::avx512pf", "xsimd::avx512ifma",
            "xsimd::avx512vbmi", "xsimd::avx512vbmi2", "xsimd::avx512vnni<xsimd::avx512bw>", "xsimd::avx512vnni<xsimd::avx512vbmi2>"]
# best-first order of all_x86_architectures, as ids (1-based index into ARCH_CXX / Cpuid.ArchNames)
BEST_FIRST = [23, 21, 20, 19, 18, 22, 16, 17, 15, 14, 13, 11, 12, 10, 9, 8, 7, 6, 5, 4, 3, 2, 1]
OS_STATES = [0b0000, 0b0001, 0b0011, 0b0111, 0b1111]   # bit0 osxsave, bit1 x1, bit2 x2, bit3 x567


def cfgrow(bits, os_, noise):
    return bytes([bits & 255, (bits >> 8) & 255, (bits >> 16) & 255, os_, noise]).hex()


def feature_sets(ctx):
    full = (1 << NF) - 1
    s = {0, full}
    for i in range(NF):
        s.add(1 << i)
        s.add(full ^ (1 << i))
        for j in range(i):
            s.add((1 << i) | (1 << j))
            s.add(full ^ (1 << i) ^ (1 << j))
    # closed chains: prefixes of the extension order
    chain = [0, 1, 2, 3, 4, 6, 5, 8, 9, 10, 11, 12, 13, 16, 17, 18, 19, 7, 14, 15]
    acc = 0
    for b in chain:
        acc |= 1 << b
        s.add(acc)
    for _ in range(ctx.q(4000, 20000)):
        s.add(ctx.rng.getrandbits(NF))
    return sorted(s)


def gen_lists(ctx):
    rng = ctx.rng
    lists = [[a] for a in range(1, 24)]
    for i in range(len(BEST_FIRST)):
        lists.append(BEST_FIRST[i:])
        lists.append(BEST_FIRST[:i + 1])
    for _ in range(ctx.q(60, 400)):   # ordered pairs incl. "wrong" (worst-first) orders
        a, b = rng.sample(range(1, 24), 2)
        lists.append([a, b])
    for _ in range(ctx.q(60, 800)):   # random sub-sequences of the best-first list
        k = rng.randint(3, 8)
        idx = sorted(rng.sample(range(23), k))
        lists.append([BEST_FIRST[i] for i in idx])
    for _ in range(ctx.q(30, 300)):   # random permutations: dispatch follows the list order, not the canonical one
        k = rng.randint(2, 6)
        lists.append(rng.sample(range(1, 24), k))
    out, seen = [], set()
    for l in lists:
        l = l[:8]
        if tuple(l) not in seen:
            seen.add(tuple(l))
            out.append(l)
    return out


def body(ctx):
    ctx.model("Dispatch.tla", timeout=900)
    ctx.model("Cpuid.tla", "CpuidQuick.cfg" if ctx.quick else "Cpuid.cfg", timeout=2400)
    lists = gen_lists(ctx)
    gdir = os.path.join(ctx.work, "gen")
    os.makedirs(gdir, exist_ok=True)
    with open(os.path.join(gdir, "gen_dispatch.inc"), "w") as f:
        for i, l in enumerate(lists):
            f.write('tab.entries.push_back({ "disp", "L%d", "-", +[](const vd::Args& a, vd::Out& o) { run_dispatch<xsimd::arch_list<%s>>(a, o); } });\n'
                    % (i, ", ".join(ARCH_CXX[a - 1] for a in l)))
    gh = hashlib.sha256(open(os.path.join(gdir, "gen_dispatch.inc"), "rb").read()).hexdigest()[:16]
    gkeep = os.path.join(vf.BUILD, "gen", "disp_" + gh)
    os.makedirs(gkeep, exist_ok=True)
    os.replace(os.path.join(gdir, "gen_dispatch.inc"), os.path.join(gkeep, "gen_dispatch.inc"))
    exe = vf.build("none", "none", extra_flags=["-I" + gkeep, "-DVD_GEN=" + gh, "-march=native"], extra_srcs=["cpuid_tu.cpp"])
    # ---- plan
    plan = []
    fs = feature_sets(ctx)
    if ctx.replay:
        plan = lanes.replay_plan(ctx.replay)
    else:
        if ctx.quick:
            for bits in fs:
                for os_ in OS_STATES:
                    plan.append("cpu detect - 0 %s - - -" % cfgrow(bits, os_, (bits ^ os_) & 1))
                    if bits % 7 == 0:
                        plan.append("cpu detect - 0 %s - - -" % cfgrow(bits, os_, 1 - ((bits ^ os_) & 1)))
        else:
            for bits in range(1 << NF):
                for os_ in OS_STATES:
                    plan.append("cpu detect - 0 %s - - -" % cfgrow(bits, os_, (bits * 2654435761 >> 7) & 1))
            for bits in fs:
                for os_ in OS_STATES:
                    for noise in (0, 1):
                        plan.append("cpu detect - 0 %s - - -" % cfgrow(bits, os_, noise))
        # dispatch: every list under >= 20 injected configurations
        navail = ctx.q(20, 40)
        full = (1 << NF) - 1
        for i, l in enumerate(lists):
            for j in range(navail):
                if j == 0:
                    bits, os_ = full, 0b1111
                elif j == 1:
                    bits, os_ = full, 0b0000
                elif j == 2:
                    bits, os_ = full, 0b0111
                elif j == 3:
                    bits, os_ = 0, 0b1111
                else:
                    bits, os_ = ctx.rng.getrandbits(NF) | ctx.rng.getrandbits(NF), ctx.rng.choice(OS_STATES)
                a, b = ctx.rng.randrange(1000), ctx.rng.randrange(1000)
                plan.append("disp L%d - 0 %s %s - -" % (i, cfgrow(bits, os_, j & 1), bytes([a & 255, a >> 8, b & 255, b >> 8, (i + j) % 3]).hex()))
        # the default list (supported_architectures) under injected availability: all, none, every prefix of the extension chain, random
        chain = [0, 1, 2, 3, 4, 6, 5, 8, 9, 10, 11, 12, 13, 16, 17, 18, 19, 7, 14, 15]
        acc, dcfg = 0, [(full, 0b1111), (0, 0b1111), (full, 0b0000), (full, 0b0111), (full, 0b0011)]
        for b in chain:
            acc |= 1 << b
            dcfg.append((acc, 0b1111))
            dcfg.append((acc, 0b0111))
        for _ in range(ctx.q(40, 400)):
            dcfg.append((ctx.rng.getrandbits(NF) | ctx.rng.getrandbits(NF), ctx.rng.choice(OS_STATES)))
        for j, (bits, os_) in enumerate(dcfg):
            a, b = ctx.rng.randrange(1000), ctx.rng.randrange(1000)
            plan.append("disp Ldef - 0 %s %s - -" % (cfgrow(bits, os_, j & 1), bytes([a & 255, a >> 8, b & 255, b >> 8, j % 3]).hex()))
    ctx.log("plan: %d lines, %d dispatch lists" % (len(plan), len(lists)))
    pl = os.path.join(ctx.work, "c15.plan")
    with open(pl, "w") as f:
        f.write("\n".join(plan) + "\n")
    out = os.path.join(ctx.work, "c15.ndjson")
    vf.run_plan(exe, pl, out)
    events = []
    with open(out) as f:
        for line in f:
            e = json.loads(line)
            if e["k"] == "disp":
                e["scat"] = e["r"][-1]          # the value category the functor observed (harness: last byte)
                e["r"] = e["r"][:-1]
            if e["k"] == "disp" and e["op"] == "Ldef":
                n = e["r"][40]
                e["list"] = e["r"][41:41 + n]
                e["best"] = e["r"][41 + n]
                e["r"] = e["r"][:40]
            elif e["k"] == "disp":
                e["list"] = lists[int(e["op"][1:])]
            events.append(e)
    os.remove(out)
    # ---- cache histories: one process per first configuration (the static is process-wide)
    firsts = [(0, 0b0000), ((1 << NF) - 1, 0b1111), (0b11111, 0b0011), (ctx.rng.getrandbits(NF), 0b0111)]
    nid = len(plan)
    for k, (bits, os_) in enumerate(firsts[: ctx.q(3, 4)]):
        cp = ["cpu cached - 0 %s - - -" % cfgrow(bits, os_, k & 1)]
        for _ in range(12):
            cp.append("cpu cached - 0 %s - - -" % cfgrow(ctx.rng.getrandbits(NF), ctx.rng.choice(OS_STATES), ctx.rng.randrange(2)))
        pth = os.path.join(ctx.work, "cache%d.plan" % k)
        with open(pth, "w") as f:
            f.write("\n".join(cp) + "\n")
        vf.run_plan(exe, pth, pth + ".out")
        hist = [json.loads(x) for x in open(pth + ".out")]
        for e in hist:
            e["id"] += nid
        nid += len(cp)
        plan += cp
        # a cache history is one stateful trace: validate it on its own (not sharded)
        lanes.validate(ctx, "T_Cpuid.tla", hist, "c15cache%d" % k, plan_lines=plan)
    # every ordered pair (first configuration, second configuration) of a small set, each in its own process: the second call must
    # return what the first one detected (the process-wide cache), whatever the hardware presents by then
    full = (1 << NF) - 1
    small = [(0, 0b0000), (full, 0b1111), (0b11111, 0b0001), (full, 0b0111), (full & ~(1 << 10), 0b1111)][: ctx.q(4, 5)]
    pair_events = []
    for i, c1 in enumerate(small):
        for j, c2 in enumerate(small):
            cp = ["cpu cached - 0 %s - - -" % cfgrow(c1[0], c1[1], 0), "cpu cached - 0 %s - - -" % cfgrow(c2[0], c2[1], 1)]
            pth = os.path.join(ctx.work, "cachepair.plan")
            with open(pth, "w") as f:
                f.write("\n".join(cp) + "\n")
            vf.run_plan(exe, pth, pth + ".out")
            hist = [json.loads(x) for x in open(pth + ".out")]
            for e in hist:
                e["id"] += nid
            nid += len(cp)
            plan += cp
            pair_events.append(hist)
    # (each history is its own stateful trace; they are validated in one TLC batch, one trace file per history)
    files = []
    for k, hist in enumerate(pair_events):
        p = os.path.join(ctx.work, "cachepair%02d.ndjson" % k)
        with open(p, "w") as f:
            for e in hist:
                f.write(json.dumps(e, separators=(",", ":")) + "\n")
        files.append(p)
    rejects, stats, errors = vf.tlc_validate("T_Cpuid.tla", files)
    if errors:
        raise vf.InfraError("TLC failed on a cache history %s rc=%s\n%s" % errors[0])
    ctx.cov["traces_validated_against_impl"] += len(files)
    ctx.cov["evaluations"] += sum(s.get("events", 0) for s in stats)
    ctx.cov["trace_families"]["c15cachepairs"] = dict(events=sum(s.get("events", 0) for s in stats), accepted=sum(s.get("accepted", 0) for s in stats), rejected=len(rejects))
    for rj in rejects[:10]:
        i = int(rj["id"])
        pthr = ctx.write_replay("cachepair-%s" % rj["id"], [plan[i - 2], plan[i - 1], "# " + json.dumps(rj)])
        ctx.violations.append(("cache history rejected: %s" % {k: v for k, v in rj.items() if k != "trace"}, pthr))
    ctx.log("events: %d" % len(events))
    lanes.validate(ctx, "T_Cpuid.tla", events, "c15", plan_lines=plan)
    # non-trivial: a gate decided the outcome - a detection in which some advertised feature is NOT reported available (OS state or a missing
    # prerequisite), or a dispatch whose first list element was not available (the walk had to skip); distinct = distinct (configuration, outcome)
    nt = set()
    for e in events:
        if e["k"] == "cpu":
            bits = e["a"][0] | (e["a"][1] << 8) | (e["a"][2] << 16)
            if bin(bits).count("1") > 0 and sum(e["r"][:23]) < 23 and any(((bits >> f) & 1) and not e["r"][i] for f, i in
                                                                         ((0, 0), (1, 1), (2, 2), (3, 3), (4, 4), (6, 7), (8, 9), (9, 10), (10, 12), (11, 13), (12, 14), (13, 15), (16, 18), (17, 19), (18, 20))):
                nt.add((e["op"], tuple(e["a"][:5]), tuple(e["r"][:23])))
        elif e["k"] == "disp" and e.get("list"):
            fl = e["r"][17:40]
            if not fl[e["list"][0] - 1]:
                nt.add((e["op"], tuple(e["a"][:5]), tuple(e["list"]), e["r"][1]))
    ctx.cov["distinct_nontrivial"] = len(nt)
    return dict(exhaustive=not ctx.quick,
                rule="CPUID leaf 1/7.0/7.1/0x80000001 feature bits x OSXSAVE x XCR0 states injected through the XSIMD_VERIF hook into the real detector "
                     "(thorough: all 2^20 x 5 hardware-presentable configurations; quick: every single bit, pair, all-but-one, all-but-two, closed chains and "
                     "random sets x 5 OS states), bits the detector must not read set as noise; %d generated arch_list instantiations dispatched under injected "
                     "availability; cache histories in separate processes; judged by Cpuid.DetectOK / Dispatch.DispatchOutcomeOK in TLC; distinct_nontrivial = "
                     "distinct (configuration, outcome) pairs in which a gate decided: an advertised feature not reported available, or a dispatch whose first list element was unavailable" % len(lists))


if __name__ == "__main__":
    vf.run_check("C15", "model_checking", body)
