#!/usr/bin/env python3
"""C02 - basic floating-point operations are IEEE-754 exact per lane on every ISA."""
import os
import struct
import sys
sys.path.insert(0, os.path.join(os.path.dirname(os.path.abspath(__file__)), "..", "lib"))
import vf
import lanes
import prog

FT = [("f32", 4, 8, 23), ("f64", 8, 11, 52)]
UN = ["neg", "abs", "sqrt", "not", "bitofsign", "sign", "signnz", "op-u", "op~", "op++", "op--", "op++post", "op--post", "op++old", "op--old", "op+u"]
PRED = ["isnan", "isinf", "isfinite", "is_flint", "is_even", "is_odd"]
BIN = ["add", "sub", "mul", "div", "min", "max", "fmin", "fmax", "copysign", "nextafter", "op+", "op-", "op*", "op/"]
BITS = ["and", "or", "xor", "andnot", "op&", "op|", "op^", "op&=", "op|=", "op^=", "op+=", "op-=", "op*=", "op/=", "land", "lor"]
TER = ["fma", "fms", "fnma", "fnms"]


def class_lattice(bits, E, M, rng, every):
    """every exponent (stride `every`) x mantissa shapes x both signs"""
    out = []
    shapes = [0, 1, 2, (1 << M) - 1, (1 << M) - 2, 1 << (M - 1), (1 << (M - 1)) - 1, (1 << (M - 1)) + 1, 1 << (M // 2), (1 << (M // 2)) - 1,
              0x5555555555555 & ((1 << M) - 1), 3 << (M - 2)]
    for e in list(range(0, 1 << E, every)) + [(1 << E) - 1, (1 << E) - 2, 1]:
        for m in shapes:
            for s in (0, 1):
                out.append((s << (bits - 1)) | (e << M) | m)
    return out


def moderate(bits, E, M, rng):
    bias = (1 << (E - 1)) - 1
    e = bias + rng.randint(-12, 12)
    return (rng.getrandbits(1) << (bits - 1)) | (e << M) | rng.getrandbits(M)


def make_plan(ctx):
    rng = ctx.rng
    plan = []
    for t, nb, E, M in FT:
        bits = 8 * nb
        lat = vf.float_lattice(bits)
        cl = class_lattice(bits, E, M, rng, ctx.q(16 if E == 8 else 128, 1 if E == 8 else 4))
        un = [(v,) for v in lat + cl] + [(rng.getrandbits(bits),) for _ in range(ctx.q(600, 40000))] + [(moderate(bits, E, M, rng),) for _ in range(ctx.q(200, 5000))]
        # integers and half-integers for is_flint/is_even/is_odd, incl. beyond 2^p
        bias = (1 << (E - 1)) - 1
        for k in list(range(0, 40)) + [M - 1, M, M + 1, M + 2, 63, 64, 100]:
            for frac in (0, 1 << (M - 1), 1 << max(0, M - k), (1 << max(0, M - k)) >> 1, 3 << max(0, M - k - 1)):
                for s in (0, 1):
                    un.append(((s << (bits - 1)) | ((bias + k) << M) | (frac & ((1 << M) - 1)),))
        urows = vf.rows_from(un, nb, (0, 64 // nb // 2 + 1) if not ctx.quick else (0,))
        for op in UN:
            for (ra,) in urows:
                plan.append("ew %s %s 0 %s - - -" % (op, t, ra))
        for op in PRED:
            for (ra,) in urows:
                plan.append("cmp %s %s 0 %s - - -" % (op, t, ra))
        for (ra,) in urows:
            plan.append("ew2 frexp %s 0 %s - - -" % (t, ra))
        # binary
        ps = [(a, b) for a in lat for b in lat]
        m = (1 << bits) - 1
        for _ in range(ctx.q(500, 20000)):
            ps.append((rng.getrandbits(bits), rng.getrandbits(bits)))
        for _ in range(ctx.q(500, 20000)):
            ps.append((moderate(bits, E, M, rng), moderate(bits, E, M, rng)))
        for _ in range(ctx.q(250, 8000)):   # near-cancellation x, -x(1 +- 2^-k) and nearly equal magnitudes
            x = moderate(bits, E, M, rng)
            y = (x ^ (1 << (bits - 1))) ^ (1 << rng.randrange(M))
            ps.append((x, y))
            ps.append((x, (x + rng.randint(-3, 3)) & m))
        for _ in range(ctx.q(150, 4000)):   # subnormal / overflow neighbourhoods
            ps.append(((rng.getrandbits(1) << (bits - 1)) | (rng.randint(0, 3) << M) | rng.getrandbits(M), moderate(bits, E, M, rng)))
            ps.append(((rng.getrandbits(1) << (bits - 1)) | (rng.randint((1 << E) - 4, (1 << E) - 2) << M) | rng.getrandbits(M), moderate(bits, E, M, rng)))
        brows = vf.rows_from(ps, nb, (0, 64 // nb // 2 + 1) if not ctx.quick else (0,))
        for op in BIN:
            for ra, rb in brows:
                plan.append("ew %s %s 0 %s %s - -" % (op, t, ra, rb))
        for op in BITS:
            for ra, rb in brows[:: ctx.q(4, 2)]:
                plan.append("ew %s %s 0 %s %s - -" % (op, t, ra, rb))
        # ldexp: exponent lanes are small signed integers
        ld = []
        for x in lat + [moderate(bits, E, M, rng) for _ in range(ctx.q(300, 1500))]:
            for k in (0, 1, -1, 5, -7, M, -M, 2 * M, -(1 << (E - 1)), (1 << (E - 1)) - 2, rng.randint(-300, 300)):
                ld.append((x, k))
        for ra, rb in vf.rows_from(ld, nb, (0, 3)):
            plan.append("ew ldexp %s 0 %s %s - -" % (t, ra, rb))
        # ternary
        tl = [lat[i] for i in range(0, len(lat), max(1, len(lat) // 12))][:12]
        ts = [(a, b, c) for a in tl for b in tl for c in tl]
        for _ in range(ctx.q(500, 12000)):
            a, b = moderate(bits, E, M, rng), moderate(bits, E, M, rng)
            c = rng.choice([moderate(bits, E, M, rng), rng.getrandbits(bits)])
            ts.append((a, b, c))
        for _ in range(ctx.q(250, 5000)):   # a*b close to -c: the fused and unfused results differ
            a, b = moderate(bits, E, M, rng), moderate(bits, E, M, rng)
            fa, fb = (struct.unpack("<f", struct.pack("<I", a))[0], struct.unpack("<f", struct.pack("<I", b))[0]) if bits == 32 else \
                     (struct.unpack("<d", struct.pack("<Q", a))[0], struct.unpack("<d", struct.pack("<Q", b))[0])
            prod = -(fa * fb)
            try:
                c = struct.unpack("<I", struct.pack("<f", prod))[0] if bits == 32 else struct.unpack("<Q", struct.pack("<d", prod))[0]
            except OverflowError:
                c = 0
            ts.append((a, b, (c + rng.randint(-2, 2)) & m))
        for op in TER:
            for ra, rb, rc in vf.rows_from(ts, nb, (0,)):
                plan.append("ew %s %s 0 %s %s %s -" % (op, t, ra, rb, rc))
    return plan


def body(ctx):
    ctx.model("IEEECheck.tla", "IEEECheckQuick.cfg" if ctx.quick else None, timeout=2400)
    plan = lanes.replay_plan(ctx.replay) if ctx.replay else make_plan(ctx)
    ctx.log("plan: %d lines" % len(plan))
    events, plan = lanes.record(ctx, "float", plan, "c02")
    ctx.log("events: %d" % len(events))
    lanes.validate(ctx, "T_Float.tla", events, "c02", plan_lines=plan)

    # straight-line programs over live batch variables (spec/Prog.tla): every instruction reads what earlier instructions left in the
    # registers; the trace specification carries the register file itself and binds only the result of each step
    prog.run(ctx, "c02", prog.FTYPES, ctx.q(48, 600), ctx.q(12, 24))
    return dict(exhaustive=False,
                rule="special-value lattice^2, class lattice (exponent x mantissa shape x sign), random bit patterns, moderate-magnitude randoms, near-cancellation and "
                     "fused-vs-unfused-sensitive triples for float and double on 22 architectures + scalar overloads; every lane judged in TLC by IEEE.tla "
                     "(exact dyadic arithmetic + RNE; div/sqrt by characterisation); float32 unary domain is covered as class lattice + random, not exhaustively; "
                     "distinct_nontrivial = distinct events whose result row differs from every operand row")


if __name__ == "__main__":
    vf.run_check("C02", "exploration", body)
