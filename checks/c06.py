#!/usr/bin/env python3
"""C06 - conversions equal the scalar cast of each lane; bitwise_cast preserves bytes."""
import os
import sys
sys.path.insert(0, os.path.join(os.path.dirname(os.path.abspath(__file__)), "..", "lib"))
import vf
import lanes
import fpgen

TYPES = [("i8", 1, "i"), ("u8", 1, "i"), ("i16", 2, "i"), ("u16", 2, "i"), ("i32", 4, "i"), ("u32", 4, "i"),
         ("i64", 8, "i"), ("u64", 8, "i"), ("f32", 4, "f"), ("f64", 8, "f")]
OPS = ["load_as", "load_as_al", "store_as", "store_as_al", "broadcast_as", "bitwise_cast"]


def int_sources(ctx, bits):
    s = set(vf.int_lattice(bits))
    m = (1 << bits) - 1
    for e in (7, 8, 15, 16, 23, 24, 25, 31, 32, 52, 53, 54, 62, 63):
        if e < bits:
            for d in range(-3, 4):
                s.add(((1 << e) + d) & m)
                s.add((-(1 << e) + d) & m)
            # halfway cases for int -> float rounding: 2^e + 2^(e-24)*{1,2,3}, 2^e + 2^(e-53)*{1,2,3}
            for p in (24, 53):
                if e >= p:
                    for j in (1, 2, 3, 5, 6, 7):
                        s.add(((1 << e) + j * (1 << (e - p))) & m)
                        s.add((-((1 << e) + j * (1 << (e - p)))) & m)
    out = sorted(s)
    out += [ctx.rng.getrandbits(bits) for _ in range(ctx.q(48, 2000))]
    return out


def make_plan(ctx):
    plan = []
    for t, nb, kind in TYPES:
        bits = 8 * nb
        if kind == "i":
            vals = int_sources(ctx, bits)
        else:
            vals = vf.float_lattice(bits) + fpgen.integral_lattice(bits, ctx.rng, ctx.q(100, 3000)) + [ctx.rng.getrandbits(bits) for _ in range(ctx.q(50, 2000))]
        rows = vf.rows_from([(v,) for v in vals], nb, (0, 64 // nb // 2 + 1) if not ctx.quick else (0,))
        for to, nbt, kt in TYPES:
            ops = list(OPS)
            if nbt == nb:
                ops.append("batch_cast")
            for op in ops:
                rr = rows
                if op in ("load_as_al", "store_as_al", "broadcast_as") and ctx.quick:
                    rr = rows[::6]
                elif ctx.quick and op in ("load_as", "store_as"):
                    rr = rows[::2] if nbt != nb else rows[::4]     # equal-size pairs are also covered by batch_cast
                if op == "bitwise_cast":
                    rr = rows[:: ctx.q(4, 1)]
                for (ra,) in rr:
                    plan.append("cv %s:%s %s 0 %s - - -" % (op, to, t, ra))
    return plan


def split_to(events):
    for e in events:
        e["op"], e["to"] = e["op"].split(":")
    return events


def body(ctx):
    ctx.model("IEEECheck.tla", "IEEECheckQuick.cfg", timeout=1200)
    ctx.model("K_ConvMagic.tla", timeout=900)
    plan = lanes.replay_plan(ctx.replay) if ctx.replay else make_plan(ctx)
    ctx.log("plan: %d lines" % len(plan))
    events, plan = lanes.record(ctx, "cvt", plan, "c06")
    events = split_to(events)
    ctx.log("events: %d" % len(events))
    lanes.validate(ctx, "T_Cvt.tla", events, "c06", plan_lines=plan)
    return dict(exhaustive=False,
                rule="all 100 (From, To) element type pairs x {batch_cast (equal size), load_as, store_as (aligned+unaligned), broadcast_as, bitwise_cast+round trip} on 22 "
                     "architectures (scalar bitwise_cast), sources: integer lattice + 2^24/2^31/2^32/2^52/2^53/2^63 +-3 + int->float halfway cases + random; floats k+-ulp "
                     "around the same thresholds, halves, every class + random; judged by IEEE.IntToFloat/FloatToIntTrunc/FloatToFloat and BvLane extension in TLC; "
                     "32-bit sources are covered by lattice + random, not exhaustively; distinct_nontrivial = distinct events whose result differs from the operand row")


if __name__ == "__main__":
    vf.run_check("C06", "exploration", body)
