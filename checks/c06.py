#!/usr/bin/env python3
"""C06 - conversions equal the scalar cast of each lane; bitwise_cast preserves bytes."""
import os
import sys
sys.path.insert(0, os.path.join(os.path.dirname(os.path.abspath(__file__)), "..", "lib"))
import vf
import lanes
import fpgen
import sweep

TYPES = [("i8", 1, "i"), ("u8", 1, "i"), ("i16", 2, "i"), ("u16", 2, "i"), ("i32", 4, "i"), ("u32", 4, "i"),
         ("i64", 8, "i"), ("u64", 8, "i"), ("f32", 4, "f"), ("f64", 8, "f")]
OPS = ["load_as", "load_as_al", "store_as", "store_as_al", "broadcast_as", "bitwise_cast"]


def int_sources(ctx, bits):
    s = set(vf.int_lattice(bits))
    m = (1 << bits) - 1
    for e in (7, 8, 15, 16, 23, 24, 25, 31, 32, 52, 53, 54, 62, 63):
        if e < bits:
            for d in range(-3, 4):
                s.add(((1 << e) + d) & m)
                s.add((-(1 << e) + d) & m)
            # halfway cases for int -> float rounding: 2^e + 2^(e-24)*{1,2,3}, 2^e + 2^(e-53)*{1,2,3}
            for p in (24, 53):
                if e >= p:
                    for j in (1, 2, 3, 5, 6, 7):
                        s.add(((1 << e) + j * (1 << (e - p))) & m)
                        s.add((-((1 << e) + j * (1 << (e - p)))) & m)
    out = sorted(s)
    out += [ctx.rng.getrandbits(bits) for _ in range(ctx.q(48, 2000))]
    return out


def make_plan(ctx):
    plan = []
    for t, nb, kind in TYPES:
        bits = 8 * nb
        if kind == "i":
            vals = int_sources(ctx, bits)
        else:
            vals = vf.float_lattice(bits) + fpgen.integral_lattice(bits, ctx.rng, ctx.q(100, 3000)) + [ctx.rng.getrandbits(bits) for _ in range(ctx.q(50, 2000))]
        rows = vf.rows_from([(v,) for v in vals], nb, (0, 64 // nb // 2 + 1) if not ctx.quick else (0,))
        for to, nbt, kt in TYPES:
            ops = list(OPS)
            if nbt == nb:
                ops.append("batch_cast")
            for op in ops:
                rr = rows
                if op in ("load_as_al", "store_as_al", "broadcast_as") and ctx.quick:
                    rr = rows[::6]
                elif ctx.quick and op in ("load_as", "store_as"):
                    rr = rows[::2] if nbt != nb else rows[::4]     # equal-size pairs are also covered by batch_cast
                if op == "bitwise_cast":
                    rr = rows[:: ctx.q(4, 1)]
                for (ra,) in rr:
                    plan.append("cv %s:%s %s 0 %s - - -" % (op, to, t, ra))
    return plan


def split_to(events):
    for e in events:
        e["op"], e["to"] = e["op"].split(":")
    return events


def body(ctx):
    ctx.model("IEEECheck.tla", "IEEECheckQuick.cfg", timeout=1200)
    ctx.model("K_ConvMagic.tla", timeout=900)
    plan = lanes.replay_plan(ctx.replay) if ctx.replay else make_plan(ctx)
    if not ctx.replay and not os.environ.get("VERIF_NO_SWEEP"):
        # selector sweep: every 32-bit source pattern (quick tier: every 64th, thorough: every 2nd, offset by the seed) through the
        # int32/uint32 <-> float batch_cast of one architecture per conversion kernel family, and seeded samples of 64-bit sources
        # (integers of every bit length, doubles up to 2^64) through the int64/uint64 <-> double casts, compared with the compiler's
        # scalar cast; rows with a disagreeing lane (the best of every binade / bit length) join the plan and are judged by TLC
        for aset, archs in (("x86", ctx.q(["sse2", "sse4_1", "avx", "avx2", "avx512f", "avx512dq"], ["sse2", "sse4_1", "avx", "avx2", "fma3<avx2>", "avx512f", "avx512dq", "avx512bw"])),
                            ("emu", ["emulated<128>"])):
            jobs = []
            stride = int(os.environ.get("VERIF_SWEEP_STRIDE", "0")) or ctx.q(64, 2)
            n64 = ctx.q(20000, 1000000)
            for ai, arch in enumerate(archs):
                sd = ctx.seed * 19 + ai
                jobs.append(sweep.job("cv", "batch_cast:f32", "i32", arch, "cvi", "-", stride, sd))
                jobs.append(sweep.job("cv", "batch_cast:f32", "u32", arch, "cvi", "-", stride, sd))
                jobs.append(sweep.job("cv", "batch_cast:i32", "f32", arch, "eqi", "trunc", stride, sd, 0, 0x7FFFFFFF, "+-"))
                jobs.append(sweep.job("cv", "batch_cast:u32", "f32", arch, "eqi", "truncu", stride, sd, 0, 0x7FFFFFFF, "+-"))
                jobs.append(sweep.job("cv", "batch_cast:f64", "i64", arch, "cvi", "-", n64, sd))
                jobs.append(sweep.job("cv", "batch_cast:f64", "u64", arch, "cvi", "-", n64, sd))
                jobs.append(sweep.job("cv", "batch_cast:i64", "f64", arch, "eqi", "trunc", n64, sd, fpgen.f2b(0.25, 64), fpgen.f2b(2.0 ** 63, 64), "+-"))
                jobs.append(sweep.job("cv", "batch_cast:u64", "f64", arch, "eqi", "truncu", n64, sd, fpgen.f2b(0.25, 64), fpgen.f2b(2.0 ** 64, 64), "+"))
            srows, _info = sweep.run(ctx, "cvt", jobs, "c06sel_" + aset, archset=aset, keep=ctx.q(8, 32))
            for r in srows:
                plan.append("cv %s %s 0 %s - - -" % (r["op"], r["t"], sweep.hexrow(r, 4 if r["t"] in ("f32", "i32", "u32") else 8)))
    ctx.log("plan: %d lines" % len(plan))
    events, plan = lanes.record(ctx, "cvt", plan, "c06")
    events = split_to(events)
    ctx.log("events: %d" % len(events))
    lanes.validate(ctx, "T_Cvt.tla", events, "c06", plan_lines=plan)
    return dict(exhaustive=False,
                rule="all 100 (From, To) element type pairs x {batch_cast (equal size), load_as, store_as (aligned+unaligned), broadcast_as, bitwise_cast+round trip} on 22 "
                     "architectures (scalar bitwise_cast), sources: integer lattice + 2^24/2^31/2^32/2^52/2^53/2^63 +-3 + int->float halfway cases + random; floats k+-ulp "
                     "around the same thresholds, halves, every class + random; judged by IEEE.IntToFloat/FloatToIntTrunc/FloatToFloat and BvLane extension in TLC; "
                     "32-bit sources are covered by lattice + random, not exhaustively; distinct_nontrivial = distinct events whose result differs from the operand row")


if __name__ == "__main__":
    vf.run_check("C06", "exploration", body)
