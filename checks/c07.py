#!/usr/bin/env python3
"""C07 - integer bitwise, shift and rotate operations act exactly on each lane's bits."""
import os
import sys
sys.path.insert(0, os.path.join(os.path.dirname(os.path.abspath(__file__)), "..", "lib"))
import vf
import lanes
import prog

ITYPES = [("i8", 1), ("u8", 1), ("i16", 2), ("u16", 2), ("i32", 4), ("u32", 4), ("i64", 8), ("u64", 8)]
BIN = ["and", "or", "xor", "andnot", "op&", "op|", "op^", "op&=", "op|=", "op^="]
UN = ["not", "op~"]
SH = ["shl", "shr", "rotl", "rotr", "op<<", "op>>", "op<<=", "op>>="]
SHV = ["shlv", "shrv", "rotlv", "rotrv", "op<<v", "op>>v", "op<<=v", "op>>=v"]


def values(ctx, bits):
    if bits == 8:
        return list(range(256))
    if bits == 16 and not ctx.quick:
        return list(range(65536))
    v = vf.int_lattice(bits)
    v += [ctx.rng.getrandbits(bits) for _ in range(ctx.q(256, 8192))]
    # single-bit and walking patterns: every bit position is a witness for a shift by every count
    for k in range(bits):
        v.append(((1 << bits) - 1) ^ (1 << k))
    return v


def make_plan(ctx):
    plan = []
    for t, nb in ITYPES:
        bits = 8 * nb
        L = 64 // nb
        vals = values(ctx, bits)
        un = [(a,) for a in vals]
        urows = vf.rows_from(un, nb, (0, L // 2 + 1))
        for op in UN:
            for (ra,) in urows:
                plan.append("ew %s %s 0 %s - - -" % (op, t, ra))
        # scalar counts: every count with every value row
        srows = urows if (bits <= 16 or not ctx.quick) else urows[: max(8, len(urows) // 2)]
        for op in SH:
            for n in range(bits):
                for (ra,) in srows:
                    plan.append("ewi %s %s %d %s - - -" % (op, t, n, ra))
        # per-lane counts: each lane a different count, all counts in every lane position
        vc = []
        for i, a in enumerate(vals):
            vc.append((a, (i * 7 + i // bits) % bits))
        for j in range(ctx.q(2, 8)):
            for i, a in enumerate(vals[:: ctx.q(3, 1)]):
                vc.append((a, ctx.rng.randrange(bits)))
        for op in SHV:
            for ra, rb in vf.rows_from(vc, nb, (0, 5)):
                plan.append("ew %s %s 0 %s %s - -" % (op, t, ra, rb))
        lat = vf.int_lattice(bits) if bits > 8 else list(range(0, 256, 5)) + [255, 127, 128]
        if ctx.quick and bits > 16:
            lat = lat[::3] + lat[-6:]
        ps = [(a, b) for a in lat for b in lat] + [(ctx.rng.getrandbits(bits), ctx.rng.getrandbits(bits)) for _ in range(ctx.q(512, 8192))]
        for op in BIN:
            for ra, rb in vf.rows_from(ps, nb, (0,)):
                plan.append("ew %s %s 0 %s %s - -" % (op, t, ra, rb))
    return plan


def body(ctx):
    ctx.model("LaneEquiv.tla", "LaneEquivQuick.cfg" if ctx.quick else None, timeout=1500)
    ctx.model("K_IntKernels.tla", timeout=600)
    plan = lanes.replay_plan(ctx.replay) if ctx.replay else make_plan(ctx)
    ctx.log("plan: %d lines" % len(plan))
    events, plan = lanes.record(ctx, "int", plan, "c07")
    ctx.log("events: %d" % len(events))
    lanes.validate(ctx, "T_Int.tla", events, "c07", plan_lines=plan)

    # straight-line programs over live batch variables (spec/Prog.tla): every instruction reads what earlier instructions left in the
    # registers; the trace specification carries the register file itself and binds only the result of each step
    prog.run(ctx, "c07", prog.ITYPES, ctx.q(24, 400), ctx.q(16, 40))
    return dict(exhaustive=False,
                rule="all 256 8-bit values (thorough: all 65536 16-bit values) and Lattice(T)+walking-bit+random values of the wider types, "
                     "x every scalar count 0..bits-1, plus independent per-lane counts, on all 22 architectures + scalar overloads; every lane judged by "
                     "LaneInt.IntRel in TLC; distinct_nontrivial = distinct events whose result row differs from every operand row")


if __name__ == "__main__":
    vf.run_check("C07", "exploration", body)
