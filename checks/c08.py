#!/usr/bin/env python3
"""C08 - rounding functions return the exact rounding of every representable input."""
import os
import sys
sys.path.insert(0, os.path.join(os.path.dirname(os.path.abspath(__file__)), "..", "lib"))
import vf
import lanes
import fpgen
import sweep

FT = [("f32", 4, 8, 23), ("f64", 8, 11, 52)]
OPS = ["ceil", "floor", "trunc", "round", "nearbyint", "rint", "nearbyint_as_int", "to_int"]


def values(ctx, bits, E, M):
    rng = ctx.rng
    vals = vf.float_lattice(bits) + fpgen.integral_lattice(bits, rng, ctx.q(400, 50000))
    bias = (1 << (E - 1)) - 1
    # per binade: mantissas such that x in {k, k +- ulp, k + 1/2, k + 1/2 +- ulp} for k reachable in that binade
    for e in range(bias - 4, bias + M + 4):
        k = e - bias          # x in [2^k, 2^(k+1))
        for j in range(ctx.q(3, 24)):
            frac_bits = M - k  # number of fraction bits below the binary point
            if frac_bits <= 0:
                mant = rng.getrandbits(M)
                cand = [mant]
            else:
                ip = rng.getrandbits(max(0, min(k, M))) if k > 0 else 0
                ipm = (ip << frac_bits) & ((1 << M) - 1) if frac_bits < M + 1 else 0
                half = 1 << (frac_bits - 1) if frac_bits >= 1 and frac_bits <= M else 0
                cand = [ipm, ipm + 1, ipm + half, ipm + half + 1, max(0, ipm + half - 1), ipm + ((1 << frac_bits) - 1 if frac_bits <= M else 0)]
            for mant in cand:
                mant &= (1 << M) - 1
                for s in (0, 1):
                    vals.append((s << (bits - 1)) | (e << M) | mant)
    vals += [rng.getrandbits(bits) for _ in range(ctx.q(400, 60000))]
    return vals


def make_plan(ctx):
    plan = []
    for t, nb, E, M in FT:
        rows = vf.rows_from([(v,) for v in values(ctx, 8 * nb, E, M)], nb, (0, 64 // nb // 2 + 1) if not ctx.quick else (0,))
        for op in OPS:
            for (ra,) in rows:
                plan.append("ew %s %s 0 %s - - -" % (op, t, ra))
    return plan


def body(ctx):
    ctx.model("IEEECheck.tla", "IEEECheckQuick.cfg", timeout=1200)
    ctx.model("K_RoundGeneric.tla", timeout=1200)
    plan = lanes.replay_plan(ctx.replay) if ctx.replay else make_plan(ctx)
    if not ctx.replay and not os.environ.get("VERIF_NO_SWEEP"):
        # selector sweep: every float32 bit pattern (quick tier: every 128th, thorough: every 4th, offset by the seed; VERIF_SWEEP_STRIDE=1: all) and a seeded sample of double rows through
        # every rounding function of every architecture, compared with the C library; a row with a disagreeing lane is appended to
        # the plan (the best one of every binade) and judged by TLC.  "The exact rounding of every representable input" is thereby
        # checked for every float32 input against libm and, where libm and xsimd disagree, by the specification.
        refs = dict(ceil=("eq", "ceil"), floor=("eq", "floor"), trunc=("eq", "trunc"), round=("eq", "round"), nearbyint=("eq", "nearbyint"), rint=("eq", "rint"),
                    nearbyint_as_int=("eqi", "nearbyint"), to_int=("eqi", "trunc"))
        # one representative per kernel family (sse2 emulation, sse4.1 roundps, avx, avx512 roundscale, avx512dq conversions, scalar overloads, emulated)
        for aset, archs in (("x86", ctx.q(["sse2", "sse4_1", "avx", "avx512f", "scalar"], ["sse2", "sse4_1", "avx", "avx2", "avx512f", "avx512dq", "scalar"])),
                            ("emu", ["emulated<128>"])):
            jobs = []
            for ai, arch in enumerate(archs):
                for op in OPS:
                    if arch == "scalar" and op == "to_int":
                        continue
                    mode, ref = refs[op]
                    stride = int(os.environ.get("VERIF_SWEEP_STRIDE", "0")) or ctx.q(128, 4)
                    jobs.append(sweep.job("ew", op, "f32", arch, mode, ref, stride, ctx.seed * 17 + ai, 0, 0x7FFFFFFF, "+-"))
                    jobs.append(sweep.job("ew", op, "f64", arch, mode, ref, ctx.q(4000, 200000), ctx.seed * 17 + ai, 1, 0x7FEFFFFFFFFFFFFF, "+-"))
            srows, _info = sweep.run(ctx, "float", jobs, "c08sel_" + aset, archset=aset, keep=ctx.q(8, 32))
            for r in srows:
                plan.append("ew %s %s 0 %s - - -" % (r["op"], r["t"], sweep.hexrow(r, 4 if r["t"] == "f32" else 8)))
    ctx.log("plan: %d lines" % len(plan))
    events, plan = lanes.record(ctx, "float", plan, "c08")
    ctx.log("events: %d" % len(events))
    lanes.validate(ctx, "T_Float.tla", events, "c08", plan_lines=plan)
    return dict(exhaustive=False,
                rule="per binade k, k+-ulp, k+1/2, k+1/2+-ulp; thresholds 2^22..2^24, 2^51..2^53, 2^31, 2^63 +- ulps; 0.49999997; special values; random bit patterns; "
                     "ceil/floor/trunc/round/nearbyint/rint/nearbyint_as_int/to_int for float and double on 22 architectures (+ scalar nearbyint_as_int); judged by "
                     "IEEE.RoundInt / FloatToIntNear in TLC (zero results compared as numbers); float32 domain covered as class lattice + random, not exhaustively; "
                     "distinct_nontrivial = distinct events whose result row differs from the operand row")


if __name__ == "__main__":
    vf.run_check("C08", "exploration", body)
