#!/usr/bin/env python3
"""C16 - complex batches compute per-lane complex arithmetic consistent with std::complex."""
import math
import os
import sys
sys.path.insert(0, os.path.join(os.path.dirname(os.path.abspath(__file__)), "..", "lib"))
sys.path.insert(0, os.path.dirname(os.path.abspath(__file__)))
import vf
import lanes
import fpgen
sys.path.insert(0, os.path.dirname(os.path.abspath(__file__)))
import c04
import acc_common

FT = [("f32", 4, 32), ("f64", 8, 64)]
TAB1 = ["exp", "expm1", "log", "log2", "log10", "sqrt", "sin", "cos", "sinh", "cosh", "tan", "tanh"]
TABR = ["norm", "abs", "arg"]


def grid(ctx, bits, maxmod, n):
    """complex operands on a log-polar grid: moduli 2^k, arguments incl. the axes and both sides of the branch cuts (+-0 imaginary part), + random"""
    rng = ctx.rng
    pts = []
    kmax = int(math.log2(maxmod))
    for k in range(-kmax, kmax + 1, max(1, (2 * kmax) // ctx.q(8, 40))):
        r = 2.0 ** k
        for j in range(ctx.q(16, 64)):
            th = 2 * math.pi * j / ctx.q(16, 64)
            pts.append((r * math.cos(th), r * math.sin(th)))
        for re, im in ((r, 0.0), (r, -0.0), (-r, 0.0), (-r, -0.0), (0.0, r), (-0.0, r), (0.0, -r), (-0.0, -r)):
            pts.append((re, im))
    for _ in range(n):
        r = math.exp(rng.uniform(-math.log(maxmod), math.log(maxmod)))
        th = rng.uniform(-math.pi, math.pi)
        pts.append((r * math.cos(th), r * math.sin(th)))
    return [(fpgen.f2b(a, bits), fpgen.f2b(b, bits)) for a, b in pts]


def body(ctx):
    ctx.model("IEEECheck.tla", "IEEECheckQuick.cfg", timeout=1200)
    rng = ctx.rng
    plan = []
    meta = {}      # plan id -> (fn, [points])
    req = []
    if ctx.replay:
        # a replay file holds plan lines; tabulated functions find their points in the lanes of the operand rows
        for line in lanes.replay_plan(ctx.replay):
            f = line.split()
            if f[0] in ("cst", "cld"):
                continue
            nb, bits = (4, 32) if f[2] == "f32" else (8, 64)
            L = 64 // nb
            lanes_of = lambda hx: [int.from_bytes(bytes.fromhex(hx)[i * nb:(i + 1) * nb], "little") for i in range(L)]
            plan.append(line)
            fn = f[1]
            if f[0] in ("cx1", "cxr") and fn in TAB1 + TABR:
                pts = [("c:" + fn, a, b) for a, b in zip(lanes_of(f[4]), lanes_of(f[5]))]
            elif f[0] == "cxp":
                pts = [("c:pow", a, b, y) for a, b, y in zip(lanes_of(f[4]), lanes_of(f[5]), lanes_of(f[6]))]
            elif f[0] == "cxq":
                pts = [("c:polar", a, b) for a, b in zip(lanes_of(f[4]), lanes_of(f[5]))]
            else:
                continue
            meta[len(plan)] = (fn, pts, bits)
            req += [(bits,) + p for p in pts]
    for t, nb, bits in ([] if ctx.replay else FT):
        L = 64 // nb

        def rows_of(pts):
            out = []
            for i in range(0, len(pts), L):
                ch = pts[i:i + L]
                while len(ch) < L:
                    ch.append(pts[(i + len(ch)) % len(pts)])
                out.append(ch)
            return out
        hx = lambda vals: vf.hexrow(vf.pack_lanes(vals, nb))
        # arithmetic: moderate moduli (no intermediate overflow/underflow), exactly representable grids included
        ar = grid(ctx, bits, 2.0 ** 20, ctx.q(150, 30000))
        gi = [(fpgen.f2b(float(a), bits), fpgen.f2b(float(b), bits)) for a in range(-4, 5) for b in range(-4, 5)]     # Gaussian integers
        ar += gi
        br = list(ar)
        rng.shuffle(br)
        for za, zb in zip(rows_of(ar), rows_of(br)):
            a, b, c, d = hx([p[0] for p in za]), hx([p[1] for p in za]), hx([p[0] for p in zb]), hx([p[1] for p in zb])
            for op in ("add", "sub", "mul", "div"):
                plan.append("cx2 %s %s 0 %s %s %s %s" % (op, t, a, b, c, d))
            for op in ("fma", "fms", "fnma", "fnms"):
                plan.append("cx3 %s %s 0 %s %s %s %s" % (op, t, a, b, c, d))
            plan.append("cxc eqneq %s 0 %s %s %s %s" % (t, a, b, c, d))
            plan.append("cxc eqneq %s 0 %s %s %s %s" % (t, a, b, a, d))
            plan.append("cxc eqneq %s 0 %s %s %s %s" % (t, a, b, a, b))
            for op in ("conj", "neg", "proj"):
                plan.append("cx1 %s %s 0 %s %s - -" % (op, t, a, b))
            for op in ("real", "imag"):
                plan.append("cxr %s %s 0 %s %s - -" % (op, t, a, b))
        # proj with infinite components
        inf = fpgen.f2b(float("inf"), bits)
        sp = [(inf, fpgen.f2b(1.0, bits)), (fpgen.f2b(2.0, bits), inf ^ (1 << (bits - 1))), (inf, inf), (inf ^ (1 << (bits - 1)), fpgen.f2b(-0.0, bits)), (fpgen.f2b(1.5, bits), fpgen.f2b(-2.5, bits))] * L
        for ch in rows_of(sp[: 2 * L]):
            plan.append("cx1 proj %s 0 %s %s - -" % (t, hx([p[0] for p in ch]), hx([p[1] for p in ch])))
        # tabulated functions
        for fn in TAB1 + TABR:
            mm = 20.0 if fn in ("tan", "tanh") else (60.0 if fn in ("exp", "expm1", "sin", "cos", "sinh", "cosh") else 2.0 ** 40)
            pts = grid(ctx, bits, mm, ctx.q(120, 20000))
            if fn in ("tan", "tanh", "exp", "expm1", "sin", "cos", "sinh", "cosh"):
                pts = [p for p in pts if abs(fpgen.b2f(p[0], bits)) <= mm and abs(fpgen.b2f(p[1], bits)) <= mm]
            if fn in ("tan", "tanh"):
                # neighbourhoods of the poles (pi/2 + k pi on the real resp. imaginary axis): the conditioning is fine relative to |result|,
                # a cancelling denominator is not (finding ctan-pole-cancellation)
                for k in (0, 1, -1, 2, -3, 5):
                    for d in (2.0 ** -3, -2.0 ** -4, 2.0 ** -6, -2.0 ** -8, 0.0437, -0.0229):
                        for e in (0.0229, -2.0 ** -5, 2.0 ** -7, -0.004, 0.0):
                            a, b = math.pi / 2 + k * math.pi + d, e
                            if d == 0.0 and e == 0.0:
                                continue
                            pts.append((fpgen.f2b(a, bits), fpgen.f2b(b, bits)) if fn == "tan" else (fpgen.f2b(b, bits), fpgen.f2b(a, bits)))
            for ch in rows_of(pts):
                plan.append("%s %s %s 0 %s %s - -" % ("cxr" if fn in TABR else "cx1", fn, t, hx([p[0] for p in ch]), hx([p[1] for p in ch])))
                meta[len(plan)] = (fn, [("c:" + fn, p[0], p[1]) for p in ch], bits)
                req += [(bits, "c:" + fn, p[0], p[1]) for p in ch]
        pts = grid(ctx, bits, 2.0 ** 10, ctx.q(100, 15000))
        ys = [fpgen.f2b(rng.choice((0.5, 2.0, 3.0, -1.0, 1.5, -2.5, 0.0, 1.0, rng.uniform(-4, 4))), bits) for _ in pts]
        for ch, yc in zip(rows_of(pts), rows_of(ys)):
            plan.append("cxp pow %s 0 %s %s %s -" % (t, hx([p[0] for p in ch]), hx([p[1] for p in ch]), hx(yc)))
            meta[len(plan)] = ("pow", [("c:pow", p[0], p[1], y) for p, y in zip(ch, yc)], bits)
            req += [(bits, "c:pow", p[0], p[1], y) for p, y in zip(ch, yc)]
        pol = [(fpgen.f2b(math.exp(rng.uniform(-10, 10)), bits), fpgen.f2b(rng.uniform(-7, 7), bits)) for _ in range(ctx.q(100, 15000))]
        for ch in rows_of(pol):
            plan.append("cxq polar %s 0 %s %s - -" % (t, hx([p[0] for p in ch]), hx([p[1] for p in ch])))
            meta[len(plan)] = ("polar", [("c:polar", p[0], p[1]) for p in ch], bits)
            req += [(bits, "c:polar", p[0], p[1]) for p in ch]
    ctx.log("plan: %d lines, %d table points" % (len(plan), len(set(req))))
    table = {}
    for bits in (32, 64):
        pts = sorted({r[1:] for r in req if r[0] == bits})
        table[bits] = ctab(pts, bits)
    events, plan = lanes.record(ctx, "cplx", plan, "c16", watchdog_ms=2000)
    out = []
    for e in events:
        if e["k"] == "fault":
            out.append(e)
            continue
        if e["id"] in meta:
            fn, pts, bits = meta[e["id"]]
            ents = [table[bits][p] for p in pts]
            e["k"] = "ctab"
            e["real"] = 1 if fn in TABR else 0
            if fn in TABR:
                e["r"] = e["r"] + [0] * 64
            e["xk"] = [[v[c][0] for v in ents] for c in range(3)]
            e["xs"] = [[v[c][1] for v in ents] for c in range(3)]
            e["xe"] = [[v[c][2] for v in ents] for c in range(3)]
            e["xm"] = [[b for v in ents for b in v[c][3].to_bytes(8, "little")] for c in range(3)]
        elif e["k"] in ("cx1", "cxr"):
            e["k"] = "cx1e"
            if e["op"] in ("real", "imag"):
                e["r"] = e["r"] + [0] * 64
        out.append(e)
    ctx.log("events: %d" % len(out))
    lanes.validate(ctx, "T_Cplx.tla", out, "c16", plan_lines=plan)
    # interleaved loads / stores: memory element i (re, im) <-> lane i of the real and imaginary parts (the plan of C04, judged by T_Mem)
    mp = [l for l in lanes.replay_plan(ctx.replay) if l.split()[0] in ("cst", "cld")] if ctx.replay else c04.complex_plan(ctx)
    if mp:
        mev, mp = lanes.record(ctx, "mem", mp, "c16mem")
        for e in mev:
            e.pop("d", None)
        lanes.validate(ctx, "T_Mem.tla", mev, "c16mem", plan_lines=mp)
    return dict(exhaustive=False,
                rule="complex<float> and complex<double> on 22 architectures: operands on a log-polar grid (moduli 2^k, 16-64 arguments incl. the axes and both sides of the branch cuts with +-0 parts), "
                     "Gaussian integers and random operands; + - * / and the four fused forms judged EXACTLY in TLC by cross-multiplied dyadic arithmetic (8 eps of the modulus), ==/!=, real/imag/conj/proj bit-exact; "
                     "exp/expm1/log/log2/log10/sqrt/sin/cos/sinh/cosh/tan/tanh(|Re|,|Im|<=20)/norm/abs/arg/polar/pow(z, real) against a tabulated Exact (mpmath) within 8 resp. 32 eps of max(|result|,1); "
                     "interleaved load/store are covered by C04; distinct_nontrivial = distinct judged events")


def ctab(points, bits):
    import hashlib, json, subprocess
    import concurrent.futures as cf
    lines = ["%s %d %s" % (p[0], bits, " ".join("%0*x" % (bits // 4, v) for v in p[1:])) for p in points]
    h = hashlib.sha256("\n".join(lines).encode()).hexdigest()[:20]
    cpath = os.path.join(vf.BUILD, "ref", "c%d_%s.json" % (bits, h))
    os.makedirs(os.path.dirname(cpath), exist_ok=True)
    if os.path.exists(cpath):
        vals = json.load(open(cpath))
    else:
        n = vf.NCPU
        chunks = [lines[i::n] for i in range(n)]

        def run(ch):
            if not ch:
                return []
            r = subprocess.run(["python3-vt", os.path.join(vf.VERIF, "tools", "gen_ref.py")], input="\n".join(ch) + "\n", stdout=subprocess.PIPE, stderr=subprocess.PIPE, text=True)
            if r.returncode != 0:
                raise vf.InfraError("gen_ref.py failed: " + r.stderr[-500:])
            return [[int(v) for v in l.split()] for l in r.stdout.splitlines()]
        with cf.ThreadPoolExecutor(n) as ex:
            res = list(ex.map(run, chunks))
        vals = [None] * len(lines)
        for i in range(n):
            for j, v in enumerate(res[i]):
                vals[i + j * n] = v
        json.dump(vals, open(cpath, "w"))
    return {p: [tuple(v[0:4]), tuple(v[4:8]), tuple(v[8:12])] for p, v in zip(points, vals)}


if __name__ == "__main__":
    vf.run_check("C16", "exploration", body)
