#!/usr/bin/env python3
"""C12 - elementary functions honour special values, domains and exact symmetries."""
import os
import sys
sys.path.insert(0, os.path.join(os.path.dirname(os.path.abspath(__file__)), "..", "lib"))
import vf
import lanes
import fpgen
import sweep

FT = [("f32", 4, 8, 23), ("f64", 8, 11, 52)]
UN = ["exp", "exp2", "exp10", "expm1", "log", "log2", "log10", "log1p", "sin", "cos", "tan", "asin", "acos", "atan", "sinh", "cosh", "tanh",
      "asinh", "acosh", "atanh", "cbrt", "erf", "erfc", "tgamma", "lgamma", "sqrt"]
PARITY = ["sin", "tan", "asin", "atan", "sinh", "tanh", "asinh", "atanh", "cbrt", "erf", "cos", "cosh"]
BIN = ["pow", "atan2", "hypot"]


def specials(bits, rng):
    s = list(vf.float_lattice(bits))
    for x in (1.0, -1.0, 0.5, -0.5, 2.0, -2.0, 3.0, -3.0, -4.0, -10.0, -33.0, -34.0, -35.0, -36.0, -50.0, -100.0, -170.0, -171.0, -172.0, -1000.0, -4503599627370496.0,
              10.0, 0.75, 6.5, 13.0, 35.0, 36.0, 171.0, 172.0, 88.0, 89.0, 709.0, 710.0, -87.0, -104.0, -708.0, -746.0):
        s += fpgen.neighbours(fpgen.f2b(x, bits), bits, 1)
    return s


def ordinary(bits, rng):
    return fpgen.f2b((rng.random() + 0.1) * 2.0 ** rng.randint(-3, 3) * rng.choice((1, -1)), bits)


def make_rows(ctx, bits, nb):
    rng = ctx.rng
    L = 64 // nb
    sp = specials(bits, rng)
    rows = [r[0] for r in vf.rows_from([(v,) for v in sp], nb, (0,))]
    # every special among ordinary companions, the special visiting every lane position
    for i, s in enumerate(sp[:: ctx.q(2, 1)]):
        for k in ([i % L] if ctx.quick else range(0, L, max(1, L // 4))):
            lanes_ = [ordinary(bits, rng) for _ in range(L)]
            lanes_[k] = s
            rows.append(vf.hexrow(vf.pack_lanes(lanes_, nb)))
    return rows


def neg_row(hexrow, nb):
    b = bytearray(bytes.fromhex(hexrow))
    for i in range(nb - 1, len(b), nb):
        b[i] ^= 0x80
    return b.hex()


def body(ctx):
    ctx.model("IEEECheck.tla", "IEEECheckQuick.cfg", timeout=1200)
    rng = ctx.rng
    plan = []
    rel = []      # (kind, op, t, id1, id2, slices)
    if ctx.replay:
        # a replay file holds the first plan line of each rejected event; the partner line of a relational event is a function of it
        # (negated row for parity, sin/cos for sincos, abs for fabs, nearbyint for rint), so the relation is rebuilt here
        for line in lanes.replay_plan(ctx.replay):
            f = line.split()
            nb = 4 if f[2] == "f32" else 8
            if f[0] == "m1x2" and f[1] == "sincos":
                plan.append(line)
                i0 = len(plan)
                plan.append("m1 sin %s 0 %s - - -" % (f[2], f[4]))
                plan.append("m1 cos %s 0 %s - - -" % (f[2], f[4]))
                rel.append(("same", "sincos/sin", f[2], i0, i0 + 1, (0, 64), None))
                rel.append(("same", "sincos/cos", f[2], i0, i0 + 2, (64, 128), None))
            elif f[0] == "m1" and f[1] in ("fabs", "rint"):
                other = "abs" if f[1] == "fabs" else "nearbyint"
                plan.append(line)
                plan.append("m1 %s %s 0 %s - - -" % (other, f[2], f[4]))
                rel.append(("same", f[1] + "/" + other, f[2], len(plan) - 1, len(plan), None, None))
            elif f[0] == "m1" and f[1] in PARITY:
                plan.append(line)            # judged on its own (special values) ...
                plan.append(line)            # ... and against its negation (parity)
                plan.append("m1 %s %s 0 %s - - -" % (f[1], f[2], neg_row(f[4], nb)))
                rel.append(("pair", f[1], f[2], len(plan) - 1, len(plan), None, None))
            else:
                plan.append(line)
    for t, nb, E, M in ([] if ctx.replay else FT):
        bits = 8 * nb
        rows = make_rows(ctx, bits, nb)
        for op in UN:
            for r in rows:
                plan.append("m1 %s %s 0 %s - - -" % (op, t, r))
        # binary: NaN propagation, pow(x, 0), negative base with non-integer exponent
        sp = vf.float_lattice(bits)[::3]
        brs = vf.rows_from([(a, b) for a in sp for b in sp], nb, (0,))
        ys = [fpgen.f2b(v, bits) for v in (0.0, -0.0, 0.5, -0.5, 1.5, 2.0, 3.0, -3.0, 0.3333, 1e-3, 7.5)]
        pw = [(ordinary(bits, rng), y) for y in ys for _ in range(6)] + [(fpgen.f2b(-abs(fpgen.b2f(ordinary(bits, rng), bits)), bits), y) for y in ys for _ in range(6)]
        brs += vf.rows_from(pw, nb, (0,))
        for op in BIN:
            for ra, rb in brs[:: ctx.q(2, 1)]:
                plan.append("m2 %s %s 0 %s %s - -" % (op, t, ra, rb))
        # parity and identities: class lattice + random, each row and its negation
        # (the special-value list holds the overflow / case-analysis thresholds of every function: both signs must take the same branch)
        vals = vf.float_lattice(bits) + specials(bits, rng) + [rng.getrandbits(bits) for _ in range(ctx.q(400, 100000))]
        for e in range(0, 1 << E, ctx.q(4 if E == 8 else 32, 1 if E == 8 else 2)):
            for m in (0, 1, (1 << M) - 1, 1 << (M - 1), 0x2AAAAAAAAAAAAA & ((1 << M) - 1), 0x155555 & ((1 << M) - 1)):
                vals.append((e << M) | m)
        prow = [r[0] for r in vf.rows_from([(v & ((1 << (bits - 1)) - 1),) for v in vals], nb, (0,))]
        for op in PARITY:
            for r in prow:
                plan.append("m1 %s %s 0 %s - - -" % (op, t, r))
                plan.append("m1 %s %s 0 %s - - -" % (op, t, neg_row(r, nb)))
                rel.append(("pair", op, t, len(plan) - 1, len(plan), None, None))
        if not os.environ.get("VERIF_NO_SWEEP"):
            # selector sweep: every float32 bit pattern (quick: every 64th, thorough: every 4th) / seeded double rows: parity bit for bit
            # (f(-x) against f(x)) and NaN exactly outside the domain (against libm); disagreeing rows join the plan and are judged by TLC
            archs = ctx.q(["sse2", "fma3<avx2>", "avx512f"], ["sse2", "sse4_1", "avx2", "fma3<avx2>", "avx512f"])
            stride = int(os.environ.get("VERIF_SWEEP_STRIDE", "0")) or ctx.q(64, 4)
            jobs = []
            for ai, arch in enumerate(archs):
                sd = ctx.seed * 23 + ai
                for op in PARITY:
                    mode = "even" if op in ("cos", "cosh") else "odd"
                    if t == "f32":
                        jobs.append(sweep.job("m1", op, t, arch, mode, "-", stride, sd, 0, 0x7FFFFFFF, "+"))
                    else:
                        jobs.append(sweep.job("m1", op, t, arch, mode, "-", ctx.q(10000, 300000), sd, 1, 0x7FEFFFFFFFFFFFFF, "+"))
                for op in ("log", "log2", "log10", "log1p", "sqrt", "asin", "acos", "atanh", "acosh"):
                    if t == "f32":
                        jobs.append(sweep.job("m1", op, t, arch, "dom", op, stride, sd, 0, 0x7FFFFFFF, "+-"))
                    else:
                        jobs.append(sweep.job("m1", op, t, arch, "dom", op, ctx.q(10000, 300000), sd, 1, 0x7FEFFFFFFFFFFFFF, "+-"))
            srows, _info = sweep.run(ctx, "math", jobs, "c12sel_" + t, keep=ctx.q(8, 32))
            for r in srows:
                row = sweep.hexrow(r, nb)
                if r["mode"] == "dom":
                    plan.append("m1 %s %s 0 %s - - -" % (r["op"], t, row))
                else:
                    plan.append("m1 %s %s 0 %s - - -" % (r["op"], t, row))
                    plan.append("m1 %s %s 0 %s - - -" % (r["op"], t, neg_row(row, nb)))
                    rel.append(("pair", r["op"], t, len(plan) - 1, len(plan), None, None))
        srow = prow[:: ctx.q(3, 1)] + [neg_row(r, nb) for r in prow[:: ctx.q(6, 1)]] + make_rows(ctx, bits, nb)[:: ctx.q(4, 1)]
        for r in srow:
            plan.append("m1x2 sincos %s 0 %s - - -" % (t, r))
            i0 = len(plan)
            plan.append("m1 sin %s 0 %s - - -" % (t, r))
            plan.append("m1 cos %s 0 %s - - -" % (t, r))
            rel.append(("same", "sincos/sin", t, i0, i0 + 1, (0, 64), None))
            rel.append(("same", "sincos/cos", t, i0, i0 + 2, (64, 128), None))
            plan.append("m1 fabs %s 0 %s - - -" % (t, r))
            plan.append("m1 abs %s 0 %s - - -" % (t, r))
            rel.append(("same", "fabs/abs", t, len(plan) - 1, len(plan), None, None))
            plan.append("m1 rint %s 0 %s - - -" % (t, r))
            plan.append("m1 nearbyint %s 0 %s - - -" % (t, r))
            rel.append(("same", "rint/nearbyint", t, len(plan) - 1, len(plan), None, None))
    ctx.log("plan: %d lines, %d relations" % (len(plan), len(rel)))
    events, plan = lanes.record(ctx, "math", plan, "c12", watchdog_ms=2000)
    byline = lanes.results_by_line(events)
    relids = set()
    for k, op, t, i1, i2, s1, s2 in rel:
        relids.add(i1)
        relids.add(i2)
    out = []
    for e in events:
        if e["k"] == "fault":
            out.append(e)
        elif e["k"] == "m1" and e["id"] not in relids:
            e["k"] = "sp1"
            out.append(e)
        elif e["k"] == "m2":
            e["k"] = "sp2"
            out.append(e)
    for k, op, t, i1, i2, s1, s2 in rel:
        out += lanes.relate(byline, i1, i2, k, op, t, r1_slice=s1, r2_slice=s2)
    # parity rows also obey the special-value rules
    ctx.log("events: %d recorded, %d judged" % (len(events), len(out)))
    def corrupt(e, rng):   # binding probe: the whole result row replaced by the finite value 0.3 (C12 constrains only the special-value lanes)
        if not isinstance(e.get("r"), list) or e.get("k") == "fault" or e.get("t") not in ("f32", "f64"):
            return None
        v = bytes.fromhex("9a99993e") if e["t"] == "f32" else bytes.fromhex("333333333333d33f")
        c = dict(e)
        c["r"] = list(v * (len(e["r"]) // len(v))) + e["r"][len(e["r"]) // len(v) * len(v):]
        return c
    lanes.validate(ctx, "T_Math.tla", out, "c12", plan_lines=plan, corrupt=corrupt, min_kill=0.3)   # rows without a special-value lane are not constrained by C12
    return dict(exhaustive=False,
                rule="every special operand of the catalogue (+-0, +-inf, quiet/signalling NaNs with payloads, +-denormals, +-MAX, +-1, domain endpoints +-1ulp, negative integers, overflow thresholds) "
                     "packed and placed among ordinary companions in every lane position, for 26 unary and 3 binary functions, float and double, 22 architectures + scalar; parity of 12 odd/even functions "
                     "bit for bit on the class lattice (exponent stride x 6 mantissas) + random, sincos == (sin, cos), fabs == abs, rint == nearbyint; judged by MathCatalog.SpecialOK/ParityOK/SameOK in TLC; "
                     "float32 domain covered as class lattice + random, not exhaustively; distinct_nontrivial = distinct events whose result differs from the operand row")


if __name__ == "__main__":
    vf.run_check("C12", "exploration", body)
