#!/usr/bin/env python3
"""C14 - every operation terminates in bounded time for every argument value."""
import json
import os
import sys
sys.path.insert(0, os.path.join(os.path.dirname(os.path.abspath(__file__)), "..", "lib"))
import vf
import lanes
import fpgen
import sweep

FT = [("f32", 4, 8, 23), ("f64", 8, 11, 52)]
UN = ["exp", "exp2", "exp10", "expm1", "log", "log2", "log10", "log1p", "sin", "cos", "tan", "asin", "acos", "atan", "sinh", "cosh", "tanh",
      "asinh", "acosh", "atanh", "cbrt", "erf", "erfc", "tgamma", "lgamma", "sqrt", "rint", "nearbyint"]
BIN = ["pow", "atan2", "hypot", "fmod", "remainder", "fdim"]


def class_values(bits, E, M, rng, estep):
    out = []
    shapes = [0, 1, (1 << M) - 1, 1 << (M - 1), (1 << (M - 1)) + 1, 0x2AAAAAAAAAAAAA & ((1 << M) - 1)]
    for e in sorted(set(list(range(0, 1 << E, estep)) + [1, 2, (1 << E) - 2, (1 << E) - 1, (1 << (E - 1)) - 1, (1 << (E - 1))])):
        for m in shapes:
            for s in (0, 1):
                out.append((s << (bits - 1)) | (e << M) | m)
    return out


def gamma_values(bits, rng, n):
    """arguments around the case analysis of the gamma kernels (poles, -33/-34, 6.5, 13, overflow limits) and huge ones"""
    vals = []
    for x in [-35.5, -34.5, -34.0, -33.5, -33.0, -32.5, -1.5, -0.5, 0.5, 1.5, 2.5, 3.0, 6.5, 12.9, 13.0, 34.9, 35.1, 36.0, 100.0, 171.5, 172.5,
              1e3, 1e6, 1e7, 1.7e7, 1e8, 1e30, -1e3, -1e6, -1e7, -1e8, -1e30, 3e38, -3e38]:
        vals += fpgen.neighbours(fpgen.f2b(x, bits), bits, 1)
    if bits == 64:
        for x in [1e300, -1e300, 9.1e15, -9.1e15, 1e18]:
            vals.append(fpgen.f2b(x, bits))
    for _ in range(n):
        vals.append(fpgen.f2b((rng.random() - 0.5) * 2.0 ** rng.randint(-3, 9), bits))
    return vals


def make_plan(ctx):
    rng = ctx.rng
    plan = []
    for t, nb, E, M in FT:
        bits = 8 * nb
        L = 64 // nb
        vals = vf.float_lattice(bits) + class_values(bits, E, M, rng, ctx.q(4 if E == 8 else 32, 1 if E == 8 else 4)) + gamma_values(bits, rng, ctx.q(60, 8000))
        rows = []
        # alone: the value broadcast to every lane
        for v in vals[:: ctx.q(2, 1)]:
            rows.append(vf.hexrow(vf.pack_lanes([v] * L, nb)))
        # with companions: every value next to lanes of other classes (mixed rows), rotated
        rows += [r[0] for r in vf.rows_from([(v,) for v in vals], nb, (0, 1, L // 2 + 1) if not ctx.quick else (0, 3))]
        mixed = []
        gv = gamma_values(bits, rng, 20)
        for _ in range(ctx.q(150, 8000)):
            mixed.append([rng.choice(gv) if rng.random() < 0.6 else rng.choice(vals) for _ in range(L)])
        rows += [vf.hexrow(vf.pack_lanes(r, nb)) for r in mixed]
        for op in UN:
            rr = rows if op in ("tgamma", "lgamma") else rows[:: ctx.q(3, 1)]
            for r in rr:
                plan.append("lp %s %s 0 %s - - -" % (op, t, r))
        brow = rows[:: ctx.q(8, 2)]
        for op in BIN:
            for i, r in enumerate(brow):
                plan.append("m2 %s %s 0 %s %s - -" % (op, t, r, brow[(i * 7 + 3) % len(brow)]))
        for r in rows[:: ctx.q(40, 8)]:
            for n in (0, 1, -1, 2, 7, -13, 1 << 30, -(1 << 30), (1 << 31) - 1, -(1 << 31), -(1 << 31) + 1):
                plan.append("m1i ipow %s %d %s - - -" % (t, n, r))
            # the other exponent types of the generic loop, with the extreme values of each (K_Ipow: at most `bits` iterations, also for MIN)
            for op, ns in (("ipow8", (-128, -127, 127, -1, 5)), ("ipow16", (-32768, -32767, 32767, -3)), ("ipow64", (-(1 << 63), -(1 << 63) + 1, (1 << 63) - 1, -(1 << 40), 1 << 62)),
                           ("ipowu32", ((1 << 32) - 1, 1 << 31, 3)), ("ipowu64", ((1 << 63) - 1, 1 << 62, 9))):
                for n in ns:
                    plan.append("m1i %s %s %d %s - - -" % (op, t, n, r))
            plan.append("m1x2 sincos %s 0 %s - - -" % (t, r))
    return plan


def project(events):
    """C14 looks at termination and iteration counts only: drop result rows, keep tick vectors, merge identical observations"""
    seen = {}
    out = []
    for e in events:
        nb = 4 if e["t"] == "f32" else 8
        if e["k"] == "lp":
            r = e["r"]
            ticks = [r[64 + 2 * i] + 256 * r[64 + 2 * i + 1] for i in range(8)]
            key = ("lp", e["op"], e["t"], e["w"], tuple(ticks))
            p = dict(id=e["id"], k="lp", op=e["op"], t=e["t"], w=e["w"], ticks=ticks, n=1, archs=e["archs"])
        elif e["k"] == "fault":
            key = ("fault", e["id"], tuple(e["archs"]))
            p = dict(id=e["id"], k="fault", op=e["op"], t=e["t"], sig=e.get("sig", 0), n=1, archs=e["archs"], a=e.get("a"))
        else:
            key = ("ret", e["op"], e["t"])
            p = dict(id=e["id"], k="ret", op=e["op"], t=e["t"], n=1, archs=e["archs"])
        if key in seen:
            seen[key]["n"] += 1
            seen[key]["archs"] = sorted(set(seen[key]["archs"]) | set(e["archs"]))
        else:
            seen[key] = p
            out.append(p)
    return out


def body(ctx):
    ctx.model("K_Gamma.tla", timeout=900)
    # the square-and-multiply loop of detail::ipow for a signed and an unsigned exponent type (every exponent of a 12-bit type: bound, result, termination)
    ctx.model("K_Ipow.tla", timeout=600)
    ctx.model("K_Ipow.tla", "K_IpowUnsigned.cfg", timeout=600)
    r = vf.tlc_model("K_Ipow.tla", "K_IpowShift.cfg", timeout=600)
    ctx.cov["model_runs"].append(dict(cfg="K_IpowShift.cfg (b >>= 1 instead of b /= 2, regression of the model: must be violated)", ok=not r["ok"], distinct=r["distinct"], generated=r["generated"], wall_s=round(r["wall"], 1)))
    if r["ok"]:
        raise vf.InfraError("K_Ipow with an arithmetic shift no longer exhibits the endless run at b = -1: the loop model lost its teeth")
    r = vf.tlc_model("K_Gamma.tla", "K_GammaAsShipped.cfg", timeout=900)
    ctx.cov["model_runs"].append(dict(cfg="K_GammaAsShipped.cfg (regression of the model: must be violated)", ok=not r["ok"], distinct=r["distinct"], generated=r["generated"], wall_s=round(r["wall"], 1)))
    if r["ok"]:
        raise vf.InfraError("K_Gamma as-shipped configuration no longer exhibits the unbounded run: the loop model lost its teeth")
    plan = lanes.replay_plan(ctx.replay) if ctx.replay else make_plan(ctx)
    if not ctx.replay and not os.environ.get("VERIF_NO_SWEEP"):
        # selector sweep: EVERY float32 bit pattern (quick tier: every 64th, offset by the seed) and a seeded sample of double rows through
        # every unary function; a call that does not return within 3 s and, for the instrumented gamma loops, the row with the most
        # iterations of every binade are appended to the plan, where the watchdog / T_Loops judge them
        jobs = []
        for t in ("f32", "f64"):
            for ai, arch in enumerate(ctx.q(["sse2", "avx512f"], ["sse2", "avx2", "avx512f"])):
                for op in UN:
                    lp = op in ("tgamma", "lgamma")
                    if t == "f32":
                        stride = int(os.environ.get("VERIF_SWEEP_STRIDE", "0")) or ctx.q(64, 1 if arch == "avx512f" else 8)
                        jobs.append(sweep.job("lp" if lp else "m1", op, t, arch, "ticks" if lp else "term", "-", stride, ctx.seed * 13 + ai, 0, 0x7FFFFFFF, "+-"))
                    else:
                        jobs.append(sweep.job("lp" if lp else "m1", op, t, arch, "ticks" if lp else "term", "-", ctx.q(20000, 400000), ctx.seed * 13 + ai, 1, 0x7FEFFFFFFFFFFFFF, "+-"))
        srows, _info = sweep.run(ctx, "math", jobs, "c14sel", keep=ctx.q(16, 64))
        for r in srows:
            nb = 4 if r["t"] == "f32" else 8
            plan.append("lp %s %s 0 %s - - -" % (r["op"], r["t"], sweep.hexrow(r, nb)))
    ctx.log("plan: %d lines" % len(plan))
    events, plan = lanes.record(ctx, "math", plan, "c14", watchdog_ms=500)
    nraw = len(events)
    events = project(events)
    ctx.log("raw events: %d, distinct observations: %d" % (nraw, len(events)))
    ctx.cov["calls_observed"] = nraw
    def corrupt(e, rng):   # binding probe: an observation with 1000 more iterations of one instrumented loop must be rejected
        if e["k"] != "lp":
            return None
        c = dict(e)
        c["ticks"] = list(e["ticks"])
        c["ticks"][rng.randrange(1, 8)] += 1000
        return c
    lanes.validate(ctx, "T_Loops.tla", events, "c14", plan_lines=plan, corrupt=corrupt)
    ctx.cov["evaluations"] = max(ctx.cov["evaluations"], nraw)
    # non-trivial = a data-dependent loop actually iterated (some tick counter > 0); distinct = distinct (function, type, width, tick vector)
    ctx.cov["distinct_nontrivial"] = len({(e["op"], e["t"], e["w"], tuple(e["ticks"])) for e in events if e["k"] == "lp" and any(e["ticks"])})
    ctx.cov["distinct_observations"] = len(events)
    mt = {}
    for e in events:
        if e["k"] == "lp":
            for i, v in enumerate(e["ticks"]):
                if v:
                    key = "%s/%s/loop%d" % (e["op"], e["t"], i)
                    mt[key] = max(mt.get(key, 0), v)
    ctx.cov["max_ticks_observed"] = mt          # the analytic constants of Loops.BoundOf are 4, 2, 20, 38, 36/172, 34, 2; the trace bound is 256
    return dict(exhaustive=False,
                rule="every unary elementary function (+ pow/atan2/hypot/fmod/remainder/fdim, ipow, sincos) for float and double on 22 architectures + scalar overloads, arguments from the "
                     "class lattice (every exponent stride x 6 mantissas x 2 signs), special values, gamma case-analysis neighbourhoods and huge values, broadcast and next to companions of other "
                     "classes, each row under a 0.5 s watchdog with the XSIMD_VERIF loop-tick hook; TLC checks every observed tick vector against bounds independent of the argument and that no call "
                     "timed out or faulted; the loop skeletons are model-checked in K_Gamma (bound + termination; as-shipped variant must fail); distinct_nontrivial = distinct (function, type, width, tick vector) observations in which an instrumented loop iterated at least once")


if __name__ == "__main__":
    vf.run_check("C14", "model_checking", body)
