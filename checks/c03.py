#!/usr/bin/env python3
"""C03 - comparisons, masks and select implement exact per-lane Boolean semantics."""
import json
import os
import sys
sys.path.insert(0, os.path.join(os.path.dirname(os.path.abspath(__file__)), "..", "lib"))
import vf
import lanes
import prog

TYPES = [("i8", 1, "i"), ("u8", 1, "i"), ("i16", 2, "i"), ("u16", 2, "i"), ("i32", 4, "i"), ("u32", 4, "i"),
         ("i64", 8, "i"), ("u64", 8, "i"), ("f32", 4, "f"), ("f64", 8, "f")]
CMP = ["eq", "neq", "lt", "le", "gt", "ge", "op==", "op!=", "op<", "op<=", "op>", "op>=", "op!"]
BIN = ["and", "or", "xor", "andnot", "eq", "neq", "land", "lor", "fand", "for", "fxor", "and=", "or=", "xor="]
UNQ = ["not", "lnot", "fnot", "id", "mask", "all", "any", "none", "count", "get", "tobatch", "bitcast", "select01", "cast_i", "cast_u", "cast_f"]
CORE = ["not", "id", "mask", "all", "any", "none", "count", "get"]
SRC = ["", "@fm", "@cmp"]
WIDTHS = [16, 32, 64]


def maskrow(m, n):
    return bytes(((m >> i) & 1) for i in range(n)).ljust(64, b"\0").hex()


def structured(n, rng, k):
    s = {0, (1 << n) - 1}
    for i in range(n):
        s.add(1 << i)
        s.add(((1 << n) - 1) ^ (1 << i))
        s.add((1 << i) - 1)
        s.add(((1 << n) - 1) ^ ((1 << i) - 1))
    s.add(int("55" * 8, 16) & ((1 << n) - 1))
    s.add(int("AA" * 8, 16) & ((1 << n) - 1))
    s.add(int("0F" * 8, 16) & ((1 << n) - 1))
    s.add(int("FF00FF00FF00FF00", 16) & ((1 << n) - 1))
    s.add(int("FFFFFFFF00000000", 16) & ((1 << n) - 1))
    if n >= 16:
        # every byte value at every byte position of the mask: the byte-indexed lookup tables of mask() / from_mask (sse2 mask_lut, lut32/lut64,
        # avx512f MortonTable256) are read at EVERY entry, whatever the seed
        for v in range(256):
            s.add(int(("%02x" % v) * 8, 16) & ((1 << n) - 1))
    for _ in range(k):
        s.add(rng.getrandbits(n))
    return sorted(s)


def thin(lst, cap, rng):
    """deterministic-by-seed sample that keeps both ends"""
    if len(lst) <= cap:
        return lst
    idx = sorted(set([0, len(lst) - 1] + [rng.randrange(len(lst)) for _ in range(cap - 2)]))
    return [lst[i] for i in idx]


def make_plan(ctx):
    plan = []
    rng = ctx.rng
    # ---- comparisons and select (row events, all architectures + scalar)
    for t, nb, kind in TYPES:
        bits = 8 * nb
        if kind == "i":
            lat = vf.int_lattice(bits)
            if ctx.quick and bits > 8:
                lat = sorted(set(vf.int_lattice(8)) | {(1 << bits) - 1, 1 << (bits - 1), (1 << (bits - 1)) - 1, (1 << (bits - 1)) + 1, (1 << bits) - 2,
                                                       1 << (bits // 2), (1 << (bits // 2)) - 1})
            if bits == 8 and not ctx.quick:
                lat = list(range(256))
        else:
            lat = vf.float_lattice(bits)
        ps = [(a, b) for a in lat for b in lat]
        for _ in range(ctx.q(512, 16384)):
            a = rng.getrandbits(bits)
            ps.append((a, rng.choice([a, a ^ 1, a ^ (1 << (bits - 1)), rng.getrandbits(bits), (a + 1) & ((1 << bits) - 1)])))
        rows = vf.rows_from(ps, nb, (0, 64 // nb // 2 + 1))
        for op in CMP:
            for ra, rb in rows:
                plan.append("cmp %s %s 0 %s %s - -" % (op, t, ra, rb))
        # select: mask lanes are 0 / all-ones / single low bit / single high bit; operands are distinct bit patterns incl. NaN payloads
        m = (1 << bits) - 1
        sel = []
        vals = lat + [rng.getrandbits(bits) for _ in range(ctx.q(64, 1024))]
        for i, x in enumerate(vals):
            y = vals[(i * 7 + 3) % len(vals)] ^ 0
            sel.append(([0, m, 1, 1 << (bits - 1), 0, 0x100 & m or 1][i % 6], x, y))
            sel.append(([m, 0][i % 2], y, x))
        for rm, rx, ry in vf.rows_from(sel, nb, (0, 3)):
            plan.append("sel select %s 0 %s %s %s -" % (t, rm, rx, ry))
    # ---- batch_bool registers: every lane count n = w / nb
    for t, nb, kind in TYPES:
        for w in WIDTHS:
            n = w // nb
            if n <= ctx.q(8, 16):
                singles = list(range(1 << n))
            else:
                singles = structured(n, rng, ctx.q(64, 2000))
            if n <= ctx.q(4, 8):
                pairs = [(p, q) for p in range(1 << n) for q in range(1 << n)]
            else:
                st = structured(n, rng, 8)
                pairs = [(p, q) for p in st[:: max(1, len(st) // 24)] for q in st[:: max(1, len(st) // 24)]]
                pairs += [(rng.getrandbits(n), rng.getrandbits(n)) for _ in range(ctx.q(256, 4096))]
            ALIAS = {"and=", "or=", "xor=", "land", "lor", "fand", "for", "fxor", "fnot", "lnot", "cast_i", "cast_u", "cast_f", "select01", "bitcast"}
            for src in SRC:
                full = src == ""
                for op in UNQ:
                    cap = None if (full and (op in CORE or not ctx.quick)) else ctx.q(96 if op in ALIAS or not full else 256, 300)
                    ms = singles if (cap is None or len(singles) <= cap) else thin(singles, cap, rng)
                    for mval in ms:
                        plan.append("bb %s%s %s %d %s - - -" % (op, src, t, w, maskrow(mval, n)))
                for op in BIN:
                    cap = None if (full and op not in ALIAS and (not ctx.quick or len(pairs) <= 256)) else ctx.q(64 if op in ALIAS or not full else 192, 400)
                    pp = pairs if (cap is None or len(pairs) <= cap) else thin(pairs, cap, rng)
                    for p, q in pp:
                        plan.append("bb %s%s %s %d %s %s - -" % (op, src, t, w, maskrow(p, n), maskrow(q, n)))
            for mval in singles:
                plan.append("bb from_mask %s %d %s - - -" % (t, w, (mval).to_bytes(8, "little").ljust(64, b"\0").hex()))
    return plan


def split_src(events):
    for e in events:
        if "@" in e["op"]:
            e["op"], e["src"] = e["op"].split("@")
        elif e["k"] == "bb":
            e["src"] = "ld"
    return events


def body(ctx):
    ctx.model("BoolAlgebra.tla", timeout=900)
    # kernel refinement of the EMULATED integer comparisons (sse2 64-bit lt from 32-bit pieces, unsigned through the sign flip, avx512f 16-bit lanes
    # inside 32-bit words) for every operand pair of the reduced width; the two seeded variants (R4-C13-2, R4-C03-2) must be refuted by the model
    ctx.model("K_Compare.tla", timeout=600)
    for cfg in ("K_CompareNoMask.cfg", "K_CompareNoShift.cfg"):
        r = vf.tlc_model("K_Compare.tla", cfg, timeout=600)
        ctx.cov["model_runs"].append(dict(cfg=cfg + " (regression of the model: must be violated)", ok=not r["ok"], distinct=r["distinct"], generated=r["generated"], wall_s=round(r["wall"], 1)))
        if r["ok"]:
            raise vf.InfraError("%s is no longer violated: the model lost its teeth" % cfg)
    plan = lanes.replay_plan(ctx.replay) if ctx.replay else make_plan(ctx)
    ctx.log("plan: %d lines" % len(plan))
    events, plan = lanes.record(ctx, "bool", plan, "c03")
    events = split_src(events)
    ctx.log("events: %d" % len(events))
    lanes.validate(ctx, "T_Bool.tla", events, "c03", plan_lines=plan)

    # straight-line programs over live batch variables (spec/Prog.tla): every instruction reads what earlier instructions left in the
    # registers; the trace specification carries the register file itself and binds only the result of each step
    prog.run(ctx, "c03", prog.ITYPES + prog.FTYPES, ctx.q(24, 300), ctx.q(16, 40))
    ex = not ctx.quick
    return dict(exhaustive=False,
                rule="comparisons: Lattice(T)^2 incl. NaN/+-0/MIN/MAX + random near-equal pairs for all 10 types; select with 0/all-ones/single-bit mask lanes; "
                     "batch_bool: every mask for n<=%d lanes and every pair of masks for n<=%d lanes (structured+random beyond), masks manufactured three ways "
                     "(bool[] load, from_mask, comparison result), for every (type, register width) of 22 architectures; judged by LaneBool/Xsimd.BoolOK in TLC; "
                     "distinct_nontrivial = distinct events whose result differs from every operand" % (16 if ex else 8, 8 if ex else 4))


if __name__ == "__main__":
    vf.run_check("C03", "model_checking", body)
