#!/usr/bin/env python3
"""X01 - growth of the specification beyond the listed properties: element-wise entry points none of C01..C20 mentions
(pos, fabs, fdim, the approximate reciprocal and reciprocal square root), judged by spec/T_Extra.tla on all 22 architectures.
NOT a registered property check (MANIFEST.json lists property checks only): a rejection here is an observation, reported as
'OBSERVATION extra=...' and never as a VIOLATION line of a listed property; exit status 0 / 3 (observations) / 2 (infrastructure)."""
import os
import sys
sys.path.insert(0, os.path.join(os.path.dirname(os.path.abspath(__file__)), "..", "lib"))
import vf
import lanes

# observations already recorded in DESIGN.md 0.4b (classified by the trace specification itself)
KNOWN_OBSERVATIONS = {"rsqrt64-float-range": "rsqrt(batch<double>) on the SSE/AVX architectures goes through single precision: arguments outside the float32 range give 0 / inf"}
ITYPES = [("i8", 1), ("u8", 1), ("i16", 2), ("u16", 2), ("i32", 4), ("u32", 4), ("i64", 8), ("u64", 8)]


def body(ctx):
    rng = ctx.rng
    plan = []
    for t, nb in ITYPES:
        vals = [(v,) for v in vf.int_lattice(8 * nb)]
        for (ra,) in vf.rows_from(vals, nb, (0, 3)):
            plan.append("ew pos %s 0 %s - - -" % (t, ra))
            for op in ("isnan", "isinf", "isfinite"):
                plan.append("cmp %s %s 0 %s - - -" % (op, t, ra))
    for t, bits in (("f32", 32), ("f64", 64)):
        nb = bits // 8
        lat = vf.float_lattice(bits, rng, ctx.q(600, 20000))
        E, M = (8, 23) if bits == 32 else (11, 52)
        bias = (1 << (E - 1)) - 1
        mid = [(rng.getrandbits(1) << (bits - 1)) | ((bias + rng.randint(-40, 40)) << M) | rng.getrandbits(M) for _ in range(ctx.q(2000, 60000))]
        un = [(v,) for v in lat + mid]
        for op in ("pos", "fabs", "reciprocal", "rsqrt"):
            for (ra,) in vf.rows_from(un, nb, (0, 5)):
                plan.append("ew %s %s 0 %s - - -" % (op, t, ra))
        pairs = [(a, b) for a in lat[:68] for b in lat[:68]] + [(rng.choice(mid), rng.choice(mid)) for _ in range(ctx.q(1000, 30000))]
        pairs += [(a, a) for a in mid[:200]] + [(a, a ^ 1) for a in mid[:200]]
        for ra, rb in vf.rows_from(pairs, nb, (0, 3)):
            plan.append("ew fdim %s 0 %s %s - -" % (t, ra, rb))
            plan.append("ew sadd %s 0 %s %s - -" % (t, ra, rb))
            plan.append("ew ssub %s 0 %s %s - -" % (t, ra, rb))
    if ctx.replay:
        plan = lanes.replay_plan(ctx.replay)
    ctx.log("plan: %d lines" % len(plan))
    events, plan = lanes.record(ctx, "extra", plan, "x01")
    ctx.log("events: %d" % len(events))
    lanes.validate(ctx, "T_Extra.tla", events, "x01", plan_lines=plan, min_kill=0.3,
                   matcher=lambda rj, ev: rj.get("known") if rj.get("known") in KNOWN_OBSERVATIONS else None)
    return dict(exhaustive=False, rule="special-value lattice + random + moderate-magnitude operands; approximations judged by |r x - 1| <= 2^-11, |r^2 x - 1| <= 2^-10 with exact dyadic products")


if __name__ == "__main__":
    os.environ.setdefault("VERIF_OUT", os.path.join(vf.BUILD, "extra_out"))      # never touches evidence/ or replays/ of the listed properties
    import importlib
    importlib.reload(vf)
    ctx = vf.Ctx("X01", "exploration")
    try:
        body(ctx)
    except vf.InfraError as e:
        print("ERROR extra=X01 infrastructure: %s" % e, file=sys.stderr)
        sys.exit(2)
    for k, n in ctx.known_hits.items():
        print("KNOWN-OBSERVATION extra=X01 %s (%d events match %s)" % (KNOWN_OBSERVATIONS.get(k, k), n, k))
    for desc, path in ctx.violations:
        print("OBSERVATION extra=X01 replay=%s   # %s" % (path, desc[:400]))
    print("[X01] %d observation(s); %s" % (len(ctx.violations), ctx.cov["trace_families"]))
    sys.exit(3 if ctx.violations else 0)
