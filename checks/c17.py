#!/usr/bin/env python3
"""C17 - scalar overloads and batch versions of the same operation agree lane for lane."""
import os
import sys
sys.path.insert(0, os.path.join(os.path.dirname(os.path.abspath(__file__)), "..", "lib"))
sys.path.insert(0, os.path.dirname(os.path.abspath(__file__)))
import vf
import lanes
import fpgen
import c01
import c02
import c03
import c07
import c08

MATH = ["exp", "exp2", "exp10", "expm1", "log", "log2", "log10", "log1p", "sin", "cos", "tan", "asin", "acos", "atan", "sinh", "cosh", "tanh",
        "asinh", "acosh", "atanh", "cbrt", "erf", "erfc", "tgamma", "lgamma", "sqrt"]
BATCH_REF = ["sse2", "avx2", "avx512f", "fma3<avx2>"]


def body(ctx):
    ctx.model("LaneEquiv.tla", "LaneEquivQuick.cfg", timeout=900)
    only = ["scalar"]
    rp = {"int": [], "float": [], "bool": [], "cvt": [], "math": []}
    if ctx.replay:
        # a replay file holds plan lines of one of the five sub-families; the line itself says which
        for line in lanes.replay_plan(ctx.replay):
            f = line.split()
            fam = "bool" if f[0] in ("cmp", "sel") else "cvt" if f[0] == "cv" else "math" if f[0] in ("m1", "m1i", "m2") else "float" if f[2] in ("f32", "f64") else "int"
            rp[fam].append(line)
    # --- the scalar slice of the exact operations: the same lane relations as the batch kernels
    ip = rp["int"] if ctx.replay else (c01.make_plan(ctx) + c07.make_plan(ctx))[:: ctx.q(1, 3)]      # thorough: a third of the owners' thorough plans
    # clip for integers and floats
    rng = ctx.rng
    for t, nb, sg in ([] if ctx.replay else c01.ITYPES):
        bits = 8 * nb
        lat = vf.int_lattice(bits)[:: ctx.q(4, 1)]
        tr = []
        for _ in range(ctx.q(300, 5000)):
            lo, hi = sorted([rng.choice(lat), rng.choice(lat)], key=lambda v: v - (1 << bits) if sg and v >> (bits - 1) else v)
            tr.append((rng.choice(lat + [rng.getrandbits(bits)]), lo, hi))
        for ra, rb, rc in vf.rows_from(tr, nb, (0,)):
            ip.append("ew clip %s 0 %s %s %s -" % (t, ra, rb, rc))
    ev = []
    if ip:
        ev, ip = lanes.record(ctx, "int", ip, "c17int", archsets=("x86",), only=None if False else ["scalar", "sse2", "avx2"])
    ev = [e for e in ev if "scalar" in e["archs"] or e["op"] == "clip"]
    ctx.log("integer events involving the scalar overloads: %d" % len(ev))
    lanes.validate(ctx, "T_Int.tla", ev, "c17int", plan_lines=ip)
    fp = rp["float"] if ctx.replay else c02.make_plan(ctx)[:: ctx.q(1, 2)] + [l for l in c08.make_plan(ctx) if " nearbyint_as_int " in l]
    for t, nb, E, M in ([] if ctx.replay else c02.FT):
        bits = 8 * nb
        tr = []
        for _ in range(ctx.q(300, 5000)):
            lo, hi = sorted([fpgen.b2f(c02.moderate(bits, E, M, rng), bits), fpgen.b2f(c02.moderate(bits, E, M, rng), bits)])
            tr.append((rng.choice([c02.moderate(bits, E, M, rng), rng.choice(vf.float_lattice(bits))]), fpgen.f2b(lo, bits), fpgen.f2b(hi, bits)))
        for ra, rb, rc in vf.rows_from(tr, nb, (0,)):
            fp.append("ew clip %s 0 %s %s %s -" % (t, ra, rb, rc))
    ev = []
    if fp:
        ev, fp = lanes.record(ctx, "float", fp, "c17flt", archsets=("x86",), only=["scalar", "sse2", "avx2"])
    ev = [e for e in ev if "scalar" in e["archs"] or e["op"] == "clip"]
    ctx.log("floating-point events involving the scalar overloads: %d" % len(ev))
    lanes.validate(ctx, "T_Float.tla", ev, "c17flt", plan_lines=fp)
    bp = rp["bool"] if ctx.replay else [l for l in c03.make_plan(ctx) if l.startswith("cmp ") or l.startswith("sel ")][:: ctx.q(3, 1)]
    ev = []
    if bp:
        ev, bp = lanes.record(ctx, "bool", bp, "c17cmp", archsets=("x86",), only=only)
    ctx.log("comparison/select events of the scalar overloads: %d" % len(ev))
    lanes.validate(ctx, "T_Bool.tla", c03.split_src(ev), "c17cmp", plan_lines=bp)
    cp = list(rp["cvt"])
    for t, nb, to in () if ctx.replay else (("f32", 4, "int32_t"), ("i32", 4, "float"), ("f32", 4, "uint32_t"), ("u32", 4, "float"), ("f64", 8, "int64_t"), ("i64", 8, "double"),
                      ("f64", 8, "uint64_t"), ("u64", 8, "double")):
        vals = (vf.float_lattice(8 * nb) if t[0] == "f" else vf.int_lattice(8 * nb)) + [rng.getrandbits(8 * nb) for _ in range(64)]
        for v in vals:
            cp.append("cv bitwise_cast:%s %s 0 %s - - -" % (to, t, vf.hexrow(vf.pack_lanes([v], nb)).ljust(128, "0")))
    ev = []
    if cp:
        ev, cp = lanes.record(ctx, "cvt", cp, "c17cvt", archsets=("x86",), only=only)
    names = {"int32_t": "i32", "uint32_t": "u32", "float": "f32", "int64_t": "i64", "uint64_t": "u64", "double": "f64"}
    for e in ev:
        e["op"], to = e["op"].split(":")
        e["to"] = names[to]
    lanes.validate(ctx, "T_Cvt.tla", ev, "c17cvt", plan_lines=cp)
    # --- elementary functions and integer-exponent pow: scalar result against the batch result of the same value
    mp = list(rp["math"])
    for t, nb, E, M in ([] if ctx.replay else c02.FT):
        bits = 8 * nb
        vals = vf.float_lattice(bits) + [fpgen.f2b((rng.random() - 0.5) * 2.0 ** rng.randint(-8, 8), bits) for _ in range(ctx.q(300, 20000))]
        vals += [fpgen.f2b((rng.random() + 0.5) * 2.0 ** rng.randint(-30, 30), bits) for _ in range(ctx.q(100, 5000))]
        rows = [r[0] for r in vf.rows_from([(v,) for v in vals], nb, (0,))]
        for op in MATH:
            for r in rows:
                mp.append("m1 %s %s 0 %s - - -" % (op, t, r))
        for r in rows[:: ctx.q(4, 1)]:
            for n in (0, 1, 2, 3, -1, -2, 5, 10, -7, 31):
                mp.append("m1i ipow %s %d %s - - -" % (t, n, r))
    ev = []
    if mp:
        ev, mp = lanes.record(ctx, "math", mp, "c17math", archsets=("x86",), only=["scalar"] + BATCH_REF, watchdog_ms=2000)
    byline = lanes.results_by_line(ev)
    out = [e for e in ev if e["k"] == "fault"]
    for i, line in enumerate(mp):
        f = line.split()
        for a in BATCH_REF:
            for e in lanes.relate({i + 1: {a: byline[i + 1][a], "scalar": byline[i + 1]["scalar"]} if a in byline.get(i + 1, {}) and "scalar" in byline.get(i + 1, {}) else {}},
                                  i + 1, i + 1, "sv", f[1], f[2], arch_map=lambda x: "scalar"):
                if e["archs"] != ["scalar"]:
                    out.append(e)
    # merge identical relational events across reference architectures
    merged = {}
    for e in out:
        key = (e["id"], e["k"], tuple(e.get("r", ())), tuple(e.get("r2", ())))
        if key in merged:
            merged[key]["archs"] = sorted(set(merged[key]["archs"]) | set(e["archs"]))
        else:
            merged[key] = e
    out = list(merged.values())
    ctx.log("scalar-vs-batch elementary function events: %d" % len(out))
    lanes.validate(ctx, "T_Math.tla", out, "c17math", plan_lines=mp)
    return dict(exhaustive=False,
                rule="the scalar overloads of xsimd_scalar.hpp as a one-lane pseudo-architecture: every integer operation of C01/C07 (+ clip), every floating operation of C02 (+ clip), nearbyint_as_int, comparisons "
                     "and select, bitwise_cast, on the operand lattices of those properties, judged by the SAME TLA+ lane relations as the batch kernels; elementary functions and integer-exponent pow: scalar result "
                     "against the batch result of sse2/avx2/fma3<avx2>/avx512f on the same value, within 2B+1 ordinals and equal special class (T_Math.CloseOK); sign/signnz/bitofsign excluded as the property says; "
                     "distinct_nontrivial = distinct judged events whose result differs from the operand row")


if __name__ == "__main__":
    vf.run_check("C17", "exploration", body)
