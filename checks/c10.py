#!/usr/bin/env python3
"""C10 - float32 elementary functions meet a per-function ulp bound on the whole domain (sampled against a tabulated Exact)."""
import os
import sys
sys.path.insert(0, os.path.dirname(os.path.abspath(__file__)))
import acc_common
import vf

if __name__ == "__main__":
    vf.run_check("C10", "exploration", lambda ctx: acc_common.run(ctx, "C10", "f32", 32, 4))
