#!/usr/bin/env python3
"""C01 - integer arithmetic is lane-wise two's-complement scalar arithmetic on every ISA."""
import os
import sys
sys.path.insert(0, os.path.join(os.path.dirname(os.path.abspath(__file__)), "..", "lib"))
import vf
import lanes
import prog

ITYPES = [("i8", 1, True), ("u8", 1, False), ("i16", 2, True), ("u16", 2, False),
          ("i32", 4, True), ("u32", 4, False), ("i64", 8, True), ("u64", 8, False)]
UN_X = ["op++", "op--", "op++post", "op--post", "op++old", "op--old", "op+u"]
UN = ["neg", "abs", "incr", "decr", "sign", "op-u"]
BIN = ["add", "sub", "mul", "min", "max", "fmin", "fmax", "sadd", "ssub", "avg", "avgr", "op+", "op-", "op*"]
BIN_X = ["op+=", "op-=", "op*=", "land", "lor"]
DIV = ["divmod", "op/%"]
TER = ["fma", "fms", "fnma", "fnms"]
MSK = ["incr_if", "decr_if"]


def pairs_for(ctx, bits, exhaustive8):
    lat = vf.int_lattice(bits)
    if bits == 8 and exhaustive8:
        return [(a, b) for a in range(256) for b in range(256)]
    if bits == 8:
        lat = sorted(set(lat) | set(range(0, 256, 17)))
    if bits > 16 and ctx.quick:
        # reduced lattice squared for the wide types in the quick tier
        keep = set(vf.int_lattice(8)) | {(1 << bits) - 1, (1 << (bits - 1)), (1 << (bits - 1)) - 1, (1 << (bits - 1)) + 1,
                                         (1 << (bits // 2)), (1 << (bits // 2)) - 1, (1 << (bits // 2)) + 1, (1 << bits) - 2,
                                         0x5555555555555555 & ((1 << bits) - 1), 0xAAAAAAAAAAAAAAAA & ((1 << bits) - 1)}
        lat = sorted(keep)
    ps = [(a, b) for a in lat for b in lat]
    nr = ctx.q(512, 20000 if bits <= 16 else 8000)
    m = (1 << bits) - 1
    for _ in range(nr):
        ps.append((ctx.rng.getrandbits(bits), ctx.rng.getrandbits(bits)))
    for _ in range(nr // 4):   # near-boundary randoms
        a = ctx.rng.choice(lat)
        ps.append(((a + ctx.rng.randint(-3, 3)) & m, (ctx.rng.choice(lat) + ctx.rng.randint(-3, 3)) & m))
    return ps


def make_plan(ctx):
    plan = []
    for t, nb, sg in ITYPES:
        bits = 8 * nb
        L = 64 // nb
        shifts = (0, L // 2 + 1) if bits > 8 else (0, 13)
        ps = pairs_for(ctx, bits, exhaustive8=not ctx.quick)
        rows = vf.rows_from(ps, nb, shifts)
        for op in BIN:
            for ra, rb in rows:
                plan.append("ew %s %s 0 %s %s - -" % (op, t, ra, rb))
        for op in BIN_X:   # member operators share the kernels of add/sub/mul: thinned rows
            for ra, rb in rows[:: ctx.q(4, 2)]:
                plan.append("ew %s %s 0 %s %s - -" % (op, t, ra, rb))
        # div/mod: no zero divisor, no MIN/-1
        m = (1 << bits) - 1
        mn = 1 << (bits - 1)
        dps = [(a, b) for a, b in ps if b != 0 and not (sg and a == mn and b == m)]
        drows = vf.rows_from(dps, nb, shifts, fill=(7, 3))
        for op in DIV:
            for ra, rb in drows:
                plan.append("ew2 %s %s 0 %s %s - -" % (op, t, ra, rb))
        for ra, rb in drows[:: ctx.q(4, 2)]:
            plan.append("ew2 op/%%= %s 0 %s %s - -" % (t, ra, rb))
        # unary + masked
        lat = vf.int_lattice(bits) if bits > 8 else list(range(256))
        un = [(a,) for a in lat] + [(ctx.rng.getrandbits(bits),) for _ in range(ctx.q(128, 4096))]
        for op in UN + UN_X:
            for (ra,) in vf.rows_from(un, nb, shifts):
                plan.append("ew %s %s 0 %s - - -" % (op, t, ra))
        msk = []
        for i, (a,) in enumerate(un):
            msk.append((a, 0))
            msk.append((a, [1, m, mn, 0x100 & m or 1][i % 4]))
        for op in MSK:
            for ra, rb in vf.rows_from(msk, nb, (0, 3)):
                plan.append("ewm %s %s 0 %s %s - -" % (op, t, ra, rb))
        # ternary on a reduced lattice
        tl = sorted({0, 1, 2, 3, m, m - 1, mn, mn - 1, mn + 1, 0x5555555555555555 & m, 1 << (bits // 2), (1 << (bits // 2)) - 1,
                     (1 << (bits // 2)) + 1, 7, 0xAAAAAAAAAAAAAAAA & m, 255 & m})
        ts = [(a, b, c) for a in tl for b in tl for c in tl]
        for _ in range(ctx.q(256, 8192)):
            ts.append((ctx.rng.getrandbits(bits), ctx.rng.getrandbits(bits), ctx.rng.getrandbits(bits)))
        if ctx.quick:
            ts = ts[::3] + ts[-256:]
        for op in TER:
            for ra, rb, rc in vf.rows_from(ts, nb, (0,)):
                plan.append("ew %s %s 0 %s %s %s -" % (op, t, ra, rb, rc))
    return plan


def body(ctx):
    ctx.model("LaneEquiv.tla", timeout=1500) if not ctx.quick else ctx.model("LaneEquiv.tla", "LaneEquivQuick.cfg", timeout=600)
    ctx.model("K_IntKernels.tla", timeout=600)
    plan = lanes.replay_plan(ctx.replay) if ctx.replay else make_plan(ctx)
    ctx.log("plan: %d lines" % len(plan))
    events, plan = lanes.record(ctx, "int", plan, "c01")
    ctx.log("events: %d" % len(events))
    lanes.validate(ctx, "T_Int.tla", events, "c01", plan_lines=plan, matcher=known_matcher)

    # straight-line programs over live batch variables (spec/Prog.tla): every instruction reads what earlier instructions left in the
    # registers; the trace specification carries the register file itself and binds only the result of each step
    prog.run(ctx, "c01", prog.ITYPES, ctx.q(24, 400), ctx.q(16, 40))
    return dict(exhaustive=False,
                rule="operand rows from Lattice(T)^2 + seeded random + near-boundary pairs (8-bit: all 65536 pairs in the thorough tier), "
                     "each row executed on all 22 architectures + scalar overloads, every lane judged by LaneInt.IntRel in TLC; "
                     "distinct_nontrivial = distinct (op,type,operand rows) events whose result row differs from every operand row")


def known_matcher(rj, ev):
    return None


if __name__ == "__main__":
    vf.run_check("C01", "exploration", body)
