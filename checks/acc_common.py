"""Shared machinery of C10 (float32) and C11 (float64): point selection from the function catalogue, Exact table (mpmath),
recording on every architecture, acc events judged by Accuracy.AccOK in TLC."""
import concurrent.futures as cf
import hashlib
import json
import math
import os
import subprocess
import sys
sys.path.insert(0, os.path.join(os.path.dirname(os.path.abspath(__file__)), "..", "lib"))
import vf
import lanes
import fpgen
import sweep

UNARY = ["exp", "exp2", "exp10", "expm1", "log", "log2", "log10", "log1p", "sin", "cos", "tan", "asin", "acos", "atan", "sinh", "cosh", "tanh",
         "asinh", "acosh", "atanh", "cbrt", "erf", "erfc", "tgamma", "lgamma", "sqrt"]
BINARY = ["pow", "atan2", "hypot"]
PI = math.pi
# case-analysis thresholds of the kernels (DESIGN.md appendix C): every one is probed +-k ulp
THRESH = {
    "exp": [-103.97, -87.34, 88.37, 88.72, 0.0, 0.3466, -0.3466, 709.78, -708.4, -745.1],
    "exp2": [-126.0, -149.0, 127.0, 128.0, 0.5, -0.5, 1023.0, -1022.0, -1074.0, -1023.0, -1023.5, -126.5, -127.0],
    "exp10": [-37.9, 38.23, -44.8, 0.15, -307.6, 308.25, -307.6526555685888, -308.2547155599167, -308.1, -308.2],
    "expm1": [-17.3, 88.37, -0.35, 0.35, 1e-5, -1e-5, 709.78, -37.4],
    "log": [1.0, 0.70710678, 1.41421356, 1.17549435e-38, 2.0, 0.5],
    "log2": [1.0, 0.70710678, 1.41421356, 2.0, 0.5, 1.17549435e-38],
    "log10": [1.0, 0.70710678, 10.0, 0.1, 1.17549435e-38],
    "log1p": [0.0, -0.29289, 0.41421356, -0.5, 1.0, -0.9999999, 1e-8],
    "sin": [PI / 4, PI / 2, 20 * PI, 3 * PI / 4, PI, 2 * PI, 102943.7, 411774.0, 823549.6, 1e5, 1e9],
    "cos": [PI / 4, PI / 2, 20 * PI, 3 * PI / 4, PI, 2 * PI, 102943.7, 411774.0, 823549.6, 1e5, 1e9],
    "tan": [PI / 4, PI / 2, 20 * PI, 3 * PI / 4, PI, 102943.7, 411774.0, 823549.6, 1e5],
    "asin": [0.5, 1.0, -0.5, -1.0, 1e-4, 0.999999, 1.49e-8],
    "acos": [0.5, 1.0, -0.5, -1.0, 1e-4, 0.999999],
    "atan": [0.41421356, 2.41421356, 1.0, -0.41421356, 1e8, 1e-4],
    "sinh": [1.0, 88.0, 88.37, 89.0, -1.0, 709.0, 710.4, 1e-4],
    "cosh": [1.0, 88.0, 88.37, 89.4, 709.0, 710.4, 1e-4],
    "tanh": [0.625, -0.625, 9.0, 19.0, 1e-4],
    "asinh": [0.5, -0.5, 4096.0, 6.7e7, 1e-4, 1e19],
    "acosh": [1.0, 1.5, 2.0, 4096.0, 6.7e7, 1e19],
    "atanh": [0.5, -0.5, 0.999999, -0.999999, 1e-4],
    "cbrt": [1.0, 8.0, 1.17549435e-38, 1e-30, 1e30],
    "erf": [2.0 / 3.0, 0.65, 2.2, -0.65, -2.2, 4.0, 6.0, 1e-4],
    "erfc": [2.0 / 3.0, 0.65, 2.2, -0.65, -2.2, 4.0, 9.0, 10.05, 26.5, 1e-4, -5.8],
    "tgamma": [-33.0, -32.5, 0.5, 1.0, 2.0, 3.0, 10.5, 33.0, 34.5, 35.04, -0.5, -1.5, -35.9, 171.6, 170.5, -170.5],
    "lgamma": [6.5, 1.5, 1.25, 0.75, 2.5, 13.0, 3.0, 2.0, -34.0, -33.5, -0.5, -1.5, -2.5, 1.0, 100.0, 1e5, 1e-3, -1e-3, -1e-5],
    "sqrt": [1.0, 2.0, 4.0, 1.17549435e-38],
}
# magnitude range [lo, hi] of the arguments sampled log-uniformly (per format index 0: f32, 1: f64), and allowed signs
DOMAIN = {
    "exp": ((1e-8, 110.0), (1e-16, 760.0), "+-"), "exp2": ((1e-8, 160.0), (1e-16, 1100.0), "+-"), "exp10": ((1e-8, 48.0), (1e-16, 330.0), "+-"),
    "expm1": ((1e-30, 110.0), (1e-200, 760.0), "+-"), "log": ((1.2e-38, 3e38), (2.3e-308, 1e308), "+"), "log2": ((1.2e-38, 3e38), (2.3e-308, 1e308), "+"),
    "log10": ((1.2e-38, 3e38), (2.3e-308, 1e308), "+"), "log1p": ((1e-30, 3e38), (1e-200, 1e308), "+-1"),
    "sin": ((1e-30, 3e38), (1e-200, 1e308), "+-"), "cos": ((1e-30, 3e38), (1e-200, 1e308), "+-"), "tan": ((1e-30, 3e38), (1e-200, 1e308), "+-"),
    "asin": ((1e-30, 1.0), (1e-200, 1.0), "+-"), "acos": ((1e-30, 1.0), (1e-200, 1.0), "+-"), "atan": ((1e-30, 3e38), (1e-200, 1e308), "+-"),
    "sinh": ((1e-30, 92.0), (1e-200, 715.0), "+-"), "cosh": ((1e-30, 92.0), (1e-200, 715.0), "+-"), "tanh": ((1e-30, 3e38), (1e-200, 1e308), "+-"),
    "asinh": ((1e-30, 3e38), (1e-200, 1e308), "+-"), "acosh": ((1.0, 3e38), (1.0, 1e308), "+"), "atanh": ((1e-30, 1.0), (1e-200, 1.0), "+-"),
    "cbrt": ((1.2e-38, 3e38), (2.3e-308, 1e308), "+-"), "erf": ((1e-30, 12.0), (1e-200, 30.0), "+-"), "erfc": ((1e-30, 12.0), (1e-200, 30.0), "+-"),
    "tgamma": ((1e-30, 40.0), (1e-200, 180.0), "+-"), "lgamma": ((1e-30, 1e30), (1e-200, 1e300), "+-"), "sqrt": ((1.2e-38, 3e38), (2.3e-308, 1e308), "+"),
}


def points_unary(ctx, fn, bits, nsamp, kulp):
    rng = ctx.rng
    fi = 0 if bits == 32 else 1
    lo, hi = DOMAIN[fn][fi]
    signs = DOMAIN[fn][2]
    pts = []
    for T in THRESH.get(fn, []):
        if bits == 32 and abs(T) > 3e38:
            continue
        b = fpgen.f2b(T, bits)
        for d in range(-kulp, kulp + 1):
            pts.append((b + d) & ((1 << bits) - 1))
    # the zone between the smallest normal result and the flush to zero: graceful degradation, never inf / NaN / a wrong sign
    # (finding exp10-denormal-zone: exp10(-308.2) was -inf)
    zone = {"exp": ((-104.0, -87.3), (-745.2, -708.3)), "exp2": ((-150.0, -126.0), (-1075.0, -1022.0)), "exp10": ((-45.2, -37.9), (-323.4, -307.6)),
            "expm1": None}.get(fn)
    if zone:
        z0, z1 = zone[fi]
        for j in range(ctx.q(48, 400)):
            pts.append(fpgen.f2b(z0 + (z1 - z0) * (j + rng.random()) / ctx.q(48, 400), bits))
    # binade boundaries inside the domain
    e0, e1 = math.floor(math.log2(lo)), math.floor(math.log2(hi))
    step = max(1, (e1 - e0) // ctx.q(24, 400))
    for e in range(e0, e1 + 1, step):
        b = fpgen.f2b(2.0 ** e, bits)
        for d in (-1, 0, 1):
            for s in ((0, 1) if signs != "+" else (0,)):
                pts.append(((b + d) & ((1 << (bits - 1)) - 1)) | (s << (bits - 1)))
    if fn in ("sin", "cos", "tan"):
        for k in list(range(1, ctx.q(24, 200))) + [2 ** j for j in range(6, 40 if bits == 32 else 60, ctx.q(6, 1))]:
            b = fpgen.f2b(k * PI / 2, bits)
            for d in (-2, -1, 0, 1, 2):
                pts.append((b + d) & ((1 << bits) - 1))
                pts.append(((b + d) & ((1 << bits) - 1)) ^ (1 << (bits - 1)))
    if fn in ("tgamma", "lgamma"):
        for k in range(-40, 0):
            b = fpgen.f2b(float(k), bits)
            for d in (-3, -2, -1, 1, 2, 3):
                pts.append((b + d) & ((1 << bits) - 1))
            pts.append(fpgen.f2b(k + 0.5, bits))
    for _ in range(nsamp):
        if rng.random() < 0.6:
            v = math.exp(rng.uniform(math.log(lo), math.log(hi)))       # log-uniform magnitude
        else:
            v = rng.uniform(min(lo, 1e-3), min(hi, 50.0))               # uniform in the core interval
        s = -1 if (signs == "+-" and rng.random() < 0.5) else 1
        if signs == "+-1" and rng.random() < 0.4:
            v, s = min(v, 0.99999), -1
        pts.append(fpgen.f2b(s * v, bits))
    # finite, non-subnormal arguments only (the scope of the claim); keep order of first appearance
    E, M = (8, 23) if bits == 32 else (11, 52)
    out, seen = [], set()
    for p in pts:
        ef = (p >> M) & ((1 << E) - 1)
        if ef == (1 << E) - 1 or (ef == 0 and (p & ((1 << M) - 1)) != 0):
            continue
        if p not in seen:
            seen.add(p)
            out.append(p)
    return out


def points_binary(ctx, fn, bits, nsamp):
    rng = ctx.rng
    pts = []
    big = 1e18 if bits == 32 else 1e150
    for _ in range(nsamp):
        if fn == "pow":
            x = math.exp(rng.uniform(math.log(1e-3), math.log(1e3))) if rng.random() < 0.8 else math.exp(rng.uniform(-40, 40))
            lim = (85.0 if bits == 32 else 700.0) / max(abs(math.log(x)), 1e-3)
            y = rng.uniform(-min(lim, 60.0), min(lim, 60.0))
            if rng.random() < 0.2:
                y = float(rng.randint(-8, 8))
        elif fn == "atan2":
            x = math.exp(rng.uniform(-30, 30)) * rng.choice((1, -1))
            y = math.exp(rng.uniform(-30, 30)) * rng.choice((1, -1))
            if rng.random() < 0.15:
                x, y = rng.choice((0.0, 1.0, -1.0, x)), rng.choice((1.0, -1.0, y))
        else:
            # hypot: the squares of both operands stay in the normal range (the scope C10/C11 give it)
            small = 1e-18 if bits == 32 else 1e-150
            x = math.exp(rng.uniform(math.log(small), math.log(big))) * rng.choice((1, -1))
            y = x * math.exp(rng.uniform(-8, 8)) * rng.choice((1, -1)) if rng.random() < 0.7 else math.exp(rng.uniform(math.log(small), math.log(big)))
            y = math.copysign(min(max(abs(y), small), big), y)
        pts.append((fpgen.f2b(x, bits), fpgen.f2b(y, bits)))
    return pts


def exact_table(points, bits):
    """points: list of (fn, x[, y]) -> {point: (k, s, e, m, yl)} via tools/gen_ref.py (mpmath), cached by content hash"""
    lines = ["%s %d %x%s" % (p[0], bits, p[1], " %x" % p[2] if len(p) > 2 else "") for p in points]
    h = hashlib.sha256(("\n".join(lines) + open(os.path.join(vf.VERIF, "tools", "gen_ref.py")).read()).encode()).hexdigest()[:20]
    cdir = os.path.join(vf.BUILD, "ref")
    os.makedirs(cdir, exist_ok=True)
    cpath = os.path.join(cdir, "t%d_%s.json" % (bits, h))
    if os.path.exists(cpath):
        vals = json.load(open(cpath))
    else:
        n = vf.NCPU
        chunks = [lines[i::n] for i in range(n)]

        def run(ch):
            if not ch:
                return []
            r = subprocess.run(["python3-vt", os.path.join(vf.VERIF, "tools", "gen_ref.py")], input="\n".join(ch) + "\n", stdout=subprocess.PIPE, stderr=subprocess.PIPE, text=True)
            if r.returncode != 0:
                raise vf.InfraError("gen_ref.py failed: " + r.stderr[-500:])
            return [tuple(int(v) for v in l.split()) for l in r.stdout.splitlines()]
        with cf.ThreadPoolExecutor(n) as ex:
            res = list(ex.map(run, chunks))
        vals = [None] * len(lines)
        for i in range(n):
            for j, v in enumerate(res[i]):
                vals[i + j * n] = v
        json.dump(vals, open(cpath, "w"))
    return {p: tuple(v) for p, v in zip(points, vals)}


def run(ctx, prop, t, bits, nb):
    ctx.model("IEEECheck.tla", "IEEECheckQuick.cfg", timeout=1200)
    rng = ctx.rng
    L = 64 // nb
    nsamp = ctx.q(1200, 150000)
    plan = []
    meta = []     # per plan line: (fn, [points per lane])
    allpts = []
    if ctx.replay:
        # a replay file holds plan lines; the points (hence the Exact table entries) are the lanes of their operand rows
        for line in lanes.replay_plan(ctx.replay):
            f = line.split()
            if f[2] != t or f[0] not in ("m1", "m2"):
                continue
            ra = bytes.fromhex(f[4])
            xs = [int.from_bytes(ra[i * nb:(i + 1) * nb], "little") for i in range(L)]
            if f[0] == "m1":
                pts = [(f[1], x) for x in xs]
            else:
                rb = bytes.fromhex(f[5])
                pts = [(f[1], x, int.from_bytes(rb[i * nb:(i + 1) * nb], "little")) for i, x in enumerate(xs)]
            plan.append(line)
            meta.append((f[1], pts))
            allpts += pts
    for fn in ([] if ctx.replay else UNARY):
        pts = points_unary(ctx, fn, bits, nsamp, ctx.q(12, 128))
        allpts += [(fn, p) for p in pts]
        ordered = sorted(pts, key=lambda b: fpgen.b2f(b, bits))
        shuffled = list(pts)
        rng.shuffle(shuffled)
        for seq in (ordered, shuffled):         # among neighbouring values / among companions of very different magnitude
            for i in range(0, len(seq), L):
                chunk = seq[i:i + L]
                while len(chunk) < L:
                    chunk.append(seq[(i + len(chunk)) % len(seq)])
                plan.append("m1 %s %s 0 %s - - -" % (fn, t, vf.hexrow(vf.pack_lanes(chunk, nb))))
                meta.append((fn, [(fn, c) for c in chunk]))
    if not ctx.replay and not os.environ.get("VERIF_NO_SWEEP"):
        # selector sweep (lib/sweep.py): float32 - every stride-th bit pattern of the whole format; float64 - a seeded sample of rows of
        # neighbouring doubles over the function's domain; ranked against libm in the next wider format, the worst row of every binade
        # is appended to the plan (in the very row composition in which it was observed) and judged by TLC like every other row
        archs = ctx.q(["sse2", "sse4_1", "fma3<avx2>", "avx512f"], ["sse2", "sse4_1", "avx2", "fma3<avx2>", "avx512f"])
        stride = int(os.environ.get("VERIF_SWEEP_STRIDE", "0")) or ctx.q(128, 8)          # VERIF_SWEEP_STRIDE=1: every float32 argument (about 7 min per architecture)
        nrows = int(os.environ.get("VERIF_SWEEP_ROWS", "0")) or ctx.q(30000, 600000)
        jobs = []
        for fn in UNARY:
            fi = 0 if bits == 32 else 1
            lo, hi = DOMAIN[fn][fi]
            signs = "+" if DOMAIN[fn][2] == "+" else "+-"
            mode = "ulp1" if fn == "lgamma" else "ulp"
            for ai, arch in enumerate(archs):
                if bits == 32:
                    jobs.append(sweep.job("m1", fn, t, arch, mode, fn, stride, ctx.seed * 31 + ai * 7 + len(fn), 0x00800000, 0x7F7FFFFF, signs))
                else:
                    jobs.append(sweep.job("m1", fn, t, arch, mode, fn, nrows, ctx.seed * 31 + ai, fpgen.f2b(max(lo, 2.3e-308), 64), fpgen.f2b(hi, 64), signs))
        srows, _info = sweep.run(ctx, "math", jobs, prop.lower() + "sel", keep=ctx.q(12, 64))
        for r in srows:
            fn = r["op"]
            chunk = [r["lanes"][i % len(r["lanes"])] for i in range(L)]
            plan.append("m1 %s %s 0 %s - - -" % (fn, t, vf.hexrow(vf.pack_lanes(chunk, nb))))
            meta.append((fn, [(fn, c) for c in chunk]))
            allpts += [(fn, c) for c in chunk]
    for fn in ([] if ctx.replay else BINARY):
        pts = points_binary(ctx, fn, bits, ctx.q(1200, 150000))
        allpts += [(fn, x, y) for x, y in pts]
        for i in range(0, len(pts), L):
            chunk = pts[i:i + L]
            while len(chunk) < L:
                chunk.append(pts[(i + len(chunk)) % len(pts)])
            plan.append("m2 %s %s 0 %s %s - -" % (fn, t, vf.hexrow(vf.pack_lanes([c[0] for c in chunk], nb)), vf.hexrow(vf.pack_lanes([c[1] for c in chunk], nb))))
            meta.append((fn, [(fn, c[0], c[1]) for c in chunk]))
    ctx.log("plan: %d lines, %d distinct points; computing the Exact table" % (len(plan), len(set(allpts))))
    table = exact_table(sorted(set(allpts)), bits)
    ctx.cov["exact_table_points"] = len(table)
    events, plan = lanes.record(ctx, "math", plan, prop.lower(), watchdog_ms=2000)
    out = []
    for e in events:
        # the scalar overloads are libm calls: their accuracy is C17's subject (scalar vs batch), not C10/C11's
        e["archs"] = [a for a in e["archs"] if a != "scalar"]
        if not e["archs"]:
            continue
        if e["k"] == "fault":
            out.append(e)
            continue
        fn, pts = meta[e["id"] - 1]
        ents = [table[p] for p in pts]
        e["k"] = "acc"
        e["xk"] = [v[0] for v in ents]
        e["xs"] = [v[1] for v in ents]
        e["xe"] = [v[2] for v in ents]
        xm = []
        for v in ents:
            xm += list(v[3].to_bytes(8, "little"))
        e["xm"] = xm
        e["xyl"] = [v[4] for v in ents]
        out.append(e)
    ctx.log("events: %d" % len(out))
    lanes.validate(ctx, "T_Math.tla", out, prop.lower(), plan_lines=plan)
    return dict(exhaustive=False,
                rule="SAMPLED claim against a tabulated model of the uninterpreted constant Exact (mpmath, 300 bits, truncated to 1/256 ulp): for 26 unary and 3 binary functions, every case-analysis threshold "
                     "+-k ulp, binade boundaries, k*pi/2 neighbourhoods, poles of gamma, log-uniform and uniform samples over the whole domain, each evaluated among neighbouring values and among companions of "
                     "very different magnitude on 22 architectures (fused and unfused) + scalar; TLC computes the error exactly and applies the frozen bound of DESIGN.md section 8 or the graceful-degradation "
                     "clause outside the normal range; distinct_nontrivial = distinct judged events whose result differs from the operand row")
