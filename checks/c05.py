#!/usr/bin/env python3
"""C05 - data-movement operations are pure lane permutations with the documented map."""
import hashlib
import json
import os
import re
import sys
sys.path.insert(0, os.path.join(os.path.dirname(os.path.abspath(__file__)), "..", "lib"))
import vf
import lanes

TYPES = [("int8_t", "i8", 1), ("uint8_t", "u8", 1), ("int16_t", "i16", 2), ("uint16_t", "u16", 2), ("int32_t", "i32", 4), ("uint32_t", "u32", 4),
         ("int64_t", "i64", 8), ("uint64_t", "u64", 8), ("float", "f32", 4), ("double", "f64", 8)]


def load_accept():
    """parse harness/accept.inc -> {(arch cxx, type cxx, group): bool}"""
    acc = {}
    cur = None
    for line in open(os.path.join(vf.HARNESS, "accept.inc")):
        m = re.match(r"template <> struct accept<(.*), (\w+)> \{", line)
        if m:
            cur = (m.group(1), m.group(2))
            continue
        m = re.match(r"\s*static constexpr bool (\w+) = (true|false);", line)
        if m and cur:
            acc[(cur[0], cur[1], m.group(1))] = m.group(2) == "true"
    return acc


def swizzle_masks(n, rng, nrand, exhaustive_small):
    if n <= 4 and exhaustive_small:
        out = []
        for v in range(n ** n):
            out.append([(v // n ** i) % n for i in range(n)])
        return out
    ms = [list(range(n)), list(range(n - 1, -1, -1))]
    for k in {0, 1, n // 2, n - 1}:
        ms.append([k] * n)
    # rotations: together they put every value at every position (a kernel that decides per lane on `index >= n/2` and the like
    # needs the boundary value at that very lane); all of them for n <= 8, a spread for wider batches
    for r in (range(1, n) if n <= 8 else sorted({1, 2, 3, n // 4, n // 4 + 1, n // 2 - 1, n // 2, n // 2 + 1, 3 * n // 4, n - 2, n - 1})):
        ms.append([(i + r) % n for i in range(n)])
    ms.append([i ^ 1 for i in range(n)])                                   # swap neighbours
    ms.append([(i + n // 2) % n for i in range(n)])                        # swap halves
    ms.append([(i // 2) for i in range(n)])                                # dup-lo
    ms.append([n // 2 + i // 2 for i in range(n)])                         # dup-hi
    ms.append([(i % 2) * (n // 2) + i // 2 for i in range(n)])             # zip-like of the two halves
    ms.append([n // 2 + (i % (n // 2)) for i in range(n)])                 # everything from the upper half
    ms.append([(n // 2 + i) if i < n // 2 else (i - n // 2 + ((i + 1) % 2)) % (n // 2) for i in range(n)])
    for lanes128 in {2, 4, 8, 16}:                                          # permutation inside each group of `lanes128` lanes
        if lanes128 < n:
            p = list(range(lanes128))
            rng.shuffle(p)
            ms.append([(i // lanes128) * lanes128 + p[i % lanes128] for i in range(n)])
            ms.append([((i // lanes128 + 1) * lanes128 + (i % lanes128)) % n for i in range(n)])     # cross-group only
    for _ in range(3):                                                      # single transpositions
        i, j = rng.randrange(n), rng.randrange(n)
        m = list(range(n))
        m[i], m[j] = m[j], m[i]
        ms.append(m)
    for _ in range(nrand):
        ms.append([rng.randrange(n) for _ in range(n)])
    for _ in range(max(1, nrand // 3)):                                     # random permutations (no repeats)
        p = list(range(n))
        rng.shuffle(p)
        ms.append(p)
    out, seen = [], set()
    for m in ms:
        m = [v % n for v in m]
        if tuple(m) not in seen:
            seen.add(tuple(m))
            out.append(m)
    return out


def pair_masks(n, rng, nrand):
    """index vectors made of contiguous pairs (s, s+1): aligned ones (s even), and near misses of that pattern"""
    h = n // 2
    def mk(starts):
        return [v for s in starts for v in (s, s + 1)]
    ms = [mk([2 * k for k in range(h)]), mk([2 * (h - 1 - k) for k in range(h)]), mk([2 * ((k + 1) % h) for k in range(h)]), mk([0] * h), mk([n - 2] * h)]
    for _ in range(nrand):
        ms.append(mk([2 * rng.randrange(h) for _ in range(h)]))
    ms.append(mk([1] * h))                                                   # every pair starts at an odd lane
    ms.append(mk([(2 * k + 1) % (n - 2) for k in range(h)]))
    for k in range(h):                                                      # one odd-aligned pair at every pair position
        st = [2 * j for j in range(h)]
        st[k] = (2 * k + 1) % (n - 1) if 2 * k + 2 < n else n - 3
        ms.append(mk(st))
    for _ in range(nrand):
        ms.append(mk([rng.randrange(n - 1) for _ in range(h)]))
    m = mk([2 * k for k in range(h)])
    m[1] = 0                                                                # a broken pair
    ms.append(m)
    return ms


def shuffle_masks(n, rng, nrand, exhaustive_small):
    if n <= 2 and exhaustive_small:
        return [[(v // (2 * n) ** i) % (2 * n) for i in range(n)] for v in range((2 * n) ** n)]
    ms = [list(range(n)), [n + i for i in range(n)]]
    ms.append([i if i % 2 == 0 else n + i for i in range(n)])               # select-like
    ms.append([n + i if i % 2 == 0 else i for i in range(n)])
    ms.append([(i // 2) + (n if i % 2 else 0) for i in range(n)])           # zip_lo pattern
    ms.append([n // 2 + (i // 2) + (n if i % 2 else 0) for i in range(n)])  # zip_hi pattern
    if n >= 4:
        # what the pattern detectors of the generic shuffle could confuse with zip/select (finding shuffle-zip-detector: <0,n,2,n+2,..> taken for zip_lo)
        ms.append([2 * (i // 2) + (n if i % 2 else 0) for i in range(n)])
        ms.append([(n // 2 + 2 * (i // 2)) % n + (n if i % 2 else 0) for i in range(n)])
        ms.append([(i + 1) % n + (n if i % 2 else 0) for i in range(n)])
    ms.append([n - 1 - i for i in range(n)])                                # swizzle of the first operand only
    ms.append([2 * n - 1 - i for i in range(n)])                            # swizzle of the second operand only
    ms.append([i if i < n // 2 else n + i for i in range(n)])               # low half of x, high half of y
    ms.append([n + i if i < n // 2 else i for i in range(n)])
    if n == 8:   # avx shuffle<float> in-lane fast path and near misses (xsimd_avx.hpp:1236-1245)
        base = [0, 1, 8, 9, 4, 5, 12, 13]
        ms.append(base)
        ms.append([1, 0, 11, 10, 5, 4, 15, 14])
        for j in range(8):
            nm = list(base)
            nm[j] = (nm[j] + 1) % 16
            ms.append(nm)
        ms.append([8, 9, 0, 1, 12, 13, 4, 5])
    if n == 4:   # sse / avx double patterns and near misses
        for b in ([0, 1, 4, 5], [0, 5, 2, 7], [1, 4, 3, 6], [0, 4, 2, 6], [1, 5, 3, 7], [0, 1, 6, 7], [2, 3, 4, 5]):
            ms.append(b)
            for j in range(4):
                nm = list(b)
                nm[j] = (nm[j] + 1) % 8
                ms.append(nm)
    for _ in range(nrand):
        ms.append([rng.randrange(2 * n) for _ in range(n)])
    for _ in range(max(1, nrand // 3)):                                     # select-like random
        ms.append([i + n * rng.randrange(2) for i in range(n)])
    out, seen = [], set()
    for m in ms:
        if tuple(m) not in seen:
            seen.add(tuple(m))
            out.append(m)
    return out


def counts(lo, hi, marks, quick, rng):
    full = list(range(lo, hi + 1))
    if not quick:
        return full
    s = {lo, hi} | {m for m in marks if lo <= m <= hi}
    s |= {rng.randrange(lo, hi + 1) for _ in range(2)}
    return sorted(s)


def generate(ctx, acc):
    """returns (text of gen_perm.inc, cases: name -> dict(op, idx))"""
    rng = ctx.rng
    out = []
    cases = {}
    cid = [0]

    def name(op, idx):
        cid[0] += 1
        nm = "%s:%d" % (op, cid[0])
        cases[nm] = dict(op=op, idx=idx)
        return nm
    for archset, archs, base in (("x86", vf.X86_ARCHS, 0), ("emu", vf.EMU_ARCHS, 100)):
        for ai, (an, acxx, regb, _) in enumerate(archs):
            out.append("#if VD_ARCH_ID == %d" % (ai + base))
            for tcxx, tn, nb in TYPES:
                n = regb // nb
                if acc.get((acxx, tcxx, "swizzle_ct")):
                    for m in swizzle_masks(n, rng, ctx.q(3, 60), not ctx.quick)[: ctx.q(64, 100000)]:
                        out.append('PERM_SWZ(%s, "%s", %s)' % (tcxx, name("swizzle_ct", m), ", ".join(map(str, m))))
                elif an in ("avx512f", "avx512cd", "avx512dq") and tcxx == "uint16_t":
                    # only masks made of aligned contiguous pairs are accepted here (folded into a 32-bit permute): acceptance is probed per
                    # mask (PERM_SWZ_IF); the family contains accepted masks and their near misses (pairs starting at an odd lane, broken pairs)
                    for m in pair_masks(n, rng, ctx.q(4, 24)):
                        out.append('PERM_SWZ_IF(%s, "%s", %s)' % (tcxx, name("swizzle_ct", m), ", ".join(map(str, m))))
                if acc.get((acxx, tcxx, "shuffle")):
                    for m in shuffle_masks(n, rng, ctx.q(3, 60), not ctx.quick)[: ctx.q(96, 100000)]:
                        out.append('PERM_SHF(%s, "%s", %s)' % (tcxx, name("shuffle", m), ", ".join(map(str, m))))
                for fn in ("slide_left", "slide_right"):
                    if acc.get((acxx, tcxx, fn)):
                        for k in counts(0, regb, {nb, 2 * nb, 3, 8, 15, 16, 17, 31, 32, 33, regb // 2, regb - nb, regb - 1}, ctx.quick, rng):
                            out.append('PERM_N(%s, "%s", %s, %d)' % (tcxx, name(fn, [k]), fn, k))
                for fn in ("rotate_left", "rotate_right"):
                    if acc.get((acxx, tcxx, fn)):
                        for k in counts(0, n - 1, {1, 2, n // 2, n // 2 + 1, n - 2}, ctx.quick, rng):
                            out.append('PERM_N(%s, "%s", %s, %d)' % (tcxx, name(fn, [k]), fn, k))
                if acc.get((acxx, tcxx, "insert")):
                    for k in counts(0, n - 1, {1, n // 2}, ctx.quick, rng):
                        out.append('PERM_INS(%s, "%s", %d)' % (tcxx, name("insert", [k]), k))
            out.append("#endif")
    return "\n".join(out) + "\n", cases


def distinct_row(rng, nb, salt):
    """64-byte row whose lanes are pairwise distinct byte patterns (tokens), incl. NaN-looking patterns for floats"""
    L = 64 // nb
    vals = rng.sample(range(1, 1 << min(8 * nb, 24)), L) if nb > 1 else rng.sample(range(1, 256), L)
    if nb >= 4:
        vals = [v | ((0x7fc0 + salt) << (8 * nb - 16)) if i % 5 == 0 else v | (salt << (8 * nb - 8)) for i, v in enumerate(vals)]
    return vf.hexrow(vf.pack_lanes(vals, nb))


def make_plan(ctx, cases, acc):
    rng = ctx.rng
    plan = []
    tn2 = {tn: (tcxx, nb) for tcxx, tn, nb in TYPES}
    # compile-time forms: each generated program is run on a few operand rows
    for nm, c in cases.items():
        pass
    by_type = {}
    for tcxx, tn, nb in TYPES:
        rows = [(distinct_row(rng, nb, 1), distinct_row(rng, nb, 2)) for _ in range(ctx.q(2, 6))]
        by_type[tn] = rows
    return plan, by_type


def body(ctx):
    ctx.model("PermLaws.tla", timeout=1200)
    ctx.model("K_Transpose.tla", timeout=600)
    ctx.model("K_ShufflePat.tla", timeout=600)
    r = vf.tlc_model("K_ShufflePat.tla", "K_ShufflePatAsShipped.cfg", timeout=600)
    ctx.cov["model_runs"].append(dict(cfg="K_ShufflePatAsShipped.cfg (regression of the model: must be violated)", ok=not r["ok"], distinct=r["distinct"], generated=r["generated"], wall_s=round(r["wall"], 1)))
    if r["ok"]:
        raise vf.InfraError("K_ShufflePat with the shipped detectors no longer exhibits shuffle<0,4,2,6> -> zip_lo: the model lost its teeth")
    # second wave of kernel refinement: the per-ISA swizzle decompositions (avx in-lane permute + blend, sse2 pshuflw/pshufhw,
    # ssse3 byte controls, avx2 64-bit through vpermd, avx512f folded 16-bit masks) against Perm!Swizzle
    ctx.model("K_Swizzle.tla", ctx.q("K_Swizzle.cfg", "K_SwizzleFull.cfg"), timeout=2400)
    if not ctx.quick:
        ctx.model("K_Swizzle.tla", "K_Swizzle.cfg", timeout=600)
    r = vf.tlc_model("K_Swizzle.tla", "K_SwizzleAsShipped.cfg", timeout=600)
    ctx.cov["model_runs"].append(dict(cfg="K_SwizzleAsShipped.cfg (regression of the model: must be violated)", ok=not r["ok"], distinct=r["distinct"], generated=r["generated"], wall_s=round(r["wall"], 1)))
    if r["ok"]:
        raise vf.InfraError("K_Swizzle with the sse2 16-bit kernel as shipped before 57617a1 no longer fails: the model lost its teeth")
    acc = load_accept()
    text, cases = generate(ctx, acc)
    gh = hashlib.sha256(text.encode()).hexdigest()[:16]
    gdir = os.path.join(vf.BUILD, "gen", "perm_" + gh)
    os.makedirs(gdir, exist_ok=True)
    with open(os.path.join(gdir, "gen_perm.inc"), "w") as f:
        f.write(text)
    ctx.log("generated %d compile-time instantiations" % len(cases))
    rng = ctx.rng
    plan = []
    if ctx.replay:
        plan = lanes.replay_plan(ctx.replay)
    else:
        rows = {tn: [(distinct_row(rng, nb, 1), distinct_row(rng, nb, 2)) for _ in range(ctx.q(2, 5))] for _, tn, nb in TYPES}
        # compile-time programs: the plan line is addressed to (op:id, type); architectures without that program ignore it
        tcxx2tn = {tcxx: tn for tcxx, tn, nb in TYPES}
        seen = set()
        for line in text.splitlines():
            m = re.match(r'PERM_\w+\((\w+), "([^"]+)"', line)
            if not m:
                continue
            tn = tcxx2tn[m.group(1)]
            for ra, rb in rows[tn]:
                plan.append("pc %s %s 0 %s %s - -" % (m.group(2), tn, ra, rb))
        # run-time forms
        for tcxx, tn, nb in TYPES:
            L = 64 // nb
            for ra, rb in rows[tn]:
                plan.append("pm zip_lo %s 0 %s %s - -" % (tn, ra, rb))
                plan.append("pm zip_hi %s 0 %s %s - -" % (tn, ra, rb))
                for k in range(L):
                    plan.append("pm extract_pair %s %d %s %s - -" % (tn, k, ra, rb))
            for w in (16, 32, 64):
                n = w // nb
                ra = rows[tn][0][0]
                if n <= ctx.q(8, 16):
                    masks = list(range(1 << n))
                else:
                    masks = sorted({0, (1 << n) - 1} | {1 << i for i in range(n)} | {((1 << n) - 1) ^ (1 << i) for i in range(n)}
                                   | {rng.getrandbits(n) for _ in range(ctx.q(40, 3000))})
                for mval in masks:
                    mrow = bytes(((mval >> i) & 1) for i in range(n)).ljust(64, b"\0").hex()
                    plan.append("pm compress %s %d %s %s - -" % (tn, w, ra, mrow))
                    plan.append("pm expand %s %d %s %s - -" % (tn, w, ra, mrow))
                # run-time swizzle: all index vectors for n <= 4 (thorough) / structured + random
                for m in swizzle_masks(n, rng, ctx.q(6, 200), not ctx.quick):
                    plan.append("pm swizzle_dyn %s %d %s %s - -" % (tn, w, ra, vf.hexrow(vf.pack_lanes(m, nb)).ljust(128, "0")))
            for seed in range(ctx.q(2, 6)):
                plan.append("pm transpose %s 0 %s - - -" % (tn, bytes([seed * 37 + 1]).ljust(64, b"\0").hex()))
    ctx.log("plan: %d lines" % len(plan))
    # assert-enabled build: `assert(false && "not implemented yet")` paths abort -> the combination is not accepted at run time
    flags = ["-I" + gdir, "-DVD_GEN=" + gh, "-UNDEBUG"]
    events, plan = lanes.record(ctx, "perm", plan, "c05", extra_flags=flags)
    kept = []
    notacc = 0
    for e in events:
        if e["k"] == "fault":
            if e.get("sig") == 6:        # SIGABRT from an assert: combination not implemented = not accepted
                notacc += 1
                continue
        if ":" in e["op"] and e["op"] in cases:
            c = cases[e["op"]]
            e["cid"] = e["op"]
            e["op"], e["idx"] = c["op"], c["idx"]
        kept.append(e)
    ctx.log("events: %d (%d assert-aborted = not accepted)" % (len(kept), notacc))
    ctx.cov["not_accepted_at_runtime"] = notacc
    lanes.validate(ctx, "T_Perm.tla", kept, "c05", plan_lines=plan)
    return dict(exhaustive=False,
                rule="%d generated template instantiations (swizzle/shuffle constant masks from structured families incl. fast-path patterns and near misses + random; "
                     "slide_left/right, rotate_left/right, insert for boundary counts; thorough: all counts, all 4-lane swizzles and 2-lane shuffles) and run-time forms (all masks "
                     "for compress/expand up to 8 (thorough 16) lanes, every extract_pair count, zip, run-time swizzle, transpose) on every accepted (type, architecture) pair; "
                     "lanes hold pairwise distinct byte patterns; judged by Perm.tla index maps in TLC; distinct_nontrivial = distinct events whose result differs from the operands"
                     % len(cases), extra=dict(programs=len(cases)))


if __name__ == "__main__":
    vf.run_check("C05", "model_checking", body)
