#!/usr/bin/env python3
"""C09 - reductions combine exactly the lanes of the batch, every lane once."""
import os
import sys
sys.path.insert(0, os.path.join(os.path.dirname(os.path.abspath(__file__)), "..", "lib"))
import vf
import lanes
import fpgen

TYPES = [("i8", 1, "i"), ("u8", 1, "i"), ("i16", 2, "i"), ("u16", 2, "i"), ("i32", 4, "i"), ("u32", 4, "i"),
         ("i64", 8, "i"), ("u64", 8, "i"), ("f32", 4, "f"), ("f64", 8, "f")]
IOPS = ["reduce_add", "reduce_max", "reduce_min", "reduce:add", "reduce:min", "reduce:max", "reduce:mul", "reduce:and", "reduce:or", "reduce:xor", "haddp"]
FOPS = ["reduce_add", "reduce_max", "reduce_min", "reduce:add", "reduce:min", "reduce:max", "haddp"]


def int_rows(ctx, nb):
    bits = 8 * nb
    L = 64 // nb
    m = (1 << bits) - 1
    rng = ctx.rng
    rows = []
    for k in range(L):                      # distinguished lane k
        rows.append([0] * k + [rng.randint(1, m)] + [0] * (L - k - 1))            # zero everywhere except lane k
        rows.append([m] * k + [rng.randint(0, m - 1)] + [m] * (L - k - 1))        # all ones except lane k
        rows.append([1] * k + [3] + [1] * (L - k - 1))                            # product witness
        ramp = [(j * 3 + 5) & m for j in range(L)]                                # strictly increasing ramp rotated: the extreme visits lane k
        rows.append(ramp[k:] + ramp[:k])
        rows.append([(m - x) & m for x in (ramp[k:] + ramp[:k])])
        mn = 1 << (bits - 1)
        rows.append([(mn + 7 + j) & m for j in range(k)] + [mn] + [(mn + 9 + j) & m for j in range(L - k - 1)])   # signed minimum at lane k
        rows.append([(mn - 9 - j) & m for j in range(k)] + [mn - 1] + [(mn - 7 - j - 100) & m for j in range(L - k - 1)])
    # distinct powers of a base: a dropped or doubled lane changes the sum
    rows.append([(3 ** j) & m for j in range(L)])
    rows.append([(1 << (j % bits)) for j in range(L)])
    for _ in range(ctx.q(20, 600)):
        rows.append([rng.getrandbits(bits) for _ in range(L)])
    for _ in range(ctx.q(8, 200)):
        lat = vf.int_lattice(bits)
        rows.append([rng.choice(lat) for _ in range(L)])
    return [vf.hexrow(vf.pack_lanes(r, nb)) for r in rows]


def float_rows(ctx, nb):
    bits = 8 * nb
    L = 64 // nb
    rng = ctx.rng
    p = 24 if bits == 32 else 53
    rows = []

    def fb(x):
        return fpgen.f2b(float(x), bits)
    for k in range(L):
        rows.append([fb(0.0)] * k + [fb(rng.randint(1, 1000) * 0.125)] + [fb(0.0)] * (L - k - 1))
        rows.append([fb(1.0)] * k + [fb(-3.5)] + [fb(1.0)] * (L - k - 1))
        ramp = [fb((j * 3 + 5) * 0.25 - 7) for j in range(L)]
        rows.append(ramp[k:] + ramp[:k])
        # exact case: small integers times a common power of two (every partial sum of every order is representable)
        sc = 2.0 ** rng.randint(-20, 20)
        rows.append([fb(rng.randint(-(1 << (p - 8)) // L, (1 << (p - 8)) // L) * sc) for _ in range(L)])
        # distinct powers of two within p-1 bits: a dropped or doubled lane changes the sum
        rows.append([fb(2.0 ** ((j + k) % min(L, p - 2))) for j in range(L)])
        # signed zeros and one extreme
        rows.append([fb(0.0) if (j + k) % 2 else fb(-0.0) for j in range(L)])
    for _ in range(ctx.q(20, 600)):        # general case: random moderate values (bounded by the gamma bound)
        rows.append([fb((rng.random() - 0.5) * 2.0 ** rng.randint(-10, 10)) for _ in range(L)])
    for _ in range(ctx.q(8, 200)):         # cancellation-heavy
        base = (rng.random() + 1) * 2.0 ** rng.randint(0, 20)
        rows.append([fb(base * (1 if j % 2 else -1) * (1 + rng.randint(-4, 4) * 2.0 ** -(p - 3))) for j in range(L)])
    return [vf.hexrow(vf.pack_lanes(r, nb)) for r in rows]


def make_plan(ctx):
    plan = []
    for t, nb, kind in TYPES:
        rows = int_rows(ctx, nb) if kind == "i" else float_rows(ctx, nb)
        for op in (IOPS if kind == "i" else FOPS):
            for i, r in enumerate(rows):
                if op == "haddp":
                    plan.append("red %s %s 0 %s %s - -" % (op, t, r, rows[(i * 5 + 1) % len(rows)]))
                else:
                    plan.append("red %s %s 0 %s - - -" % (op, t, r))
    return plan


def body(ctx):
    ctx.model("K_Reduce.tla", timeout=600, workers=2)
    plan = lanes.replay_plan(ctx.replay) if ctx.replay else make_plan(ctx)
    ctx.log("plan: %d lines" % len(plan))
    events, plan = lanes.record(ctx, "red", plan, "c09")
    ctx.log("events: %d" % len(events))
    lanes.validate(ctx, "T_Red.tla", events, "c09", plan_lines=plan)
    return dict(exhaustive=False,
                rule="for every lane k of the 64-byte operand row (hence of every register width): zero-except-lane-k, all-ones-except-lane-k, rotated ramps, extreme at lane k, "
                     "distinct powers, signed zeros, exact-case integer multiples of 2^k and random/cancellation-heavy rows; reduce_add/max/min, reduce(f) for add/mul/min/max/and/or/xor, "
                     "haddp on every accepted (type, architecture) pair; judged by Reduce.tla in TLC (integers: the fold; floats: exact when every partial sum is representable, else the "
                     "(n-1)-roundings bound); distinct_nontrivial = distinct events whose result differs from the operand row")


if __name__ == "__main__":
    vf.run_check("C09", "exploration", body)
