-------------------------------- MODULE Loops --------------------------------
(***************************************************************************)
(* Bounded termination of every call (property C14).  State: loop = the      *)
(* iteration counters of the data-dependent loops during one public call.     *)
(* The loop skeletons themselves are model-checked in K_Gamma.tla (bound and   *)
(* termination on an abstract lane domain); here the machine-level action of   *)
(* a CALL is the composition LoopEnter . LoopIter^k . LoopExit for every loop  *)
(* of the function, which is enabled only for k within the loop's bound - a     *)
(* bound that does not depend on the argument.  A call that does not return     *)
(* (watchdog) or faults has no action.                                          *)
(***************************************************************************)
EXTENDS Integers, Sequences, TLC
VARIABLE loop
\* loop ids of the XSIMD_VERIF_LOOP_TICK hook: 1,2 lgamma<float>; 3,4 lgamma<double>; 5,6,7 tgamma; 8 unused
LoopIds == 1 .. 8
LoopsOf(fn, t) == IF fn = "lgamma" THEN (IF t = "f32" THEN {1, 2} ELSE {3, 4, 1, 2})     \* (double lgamma never runs the float loops: must stay 0 = within bound)
                  ELSE IF fn = "tgamma" THEN {5, 6, 7} ELSE {}
\* constants independent of the argument (cf. K_Gamma.BoundOf)
BoundOf(fn, t, id) ==
  CASE id = 1 -> 4 [] id = 2 -> 2 [] id = 3 -> 20 [] id = 4 -> 38       \* double lgamma: large_negative() calls lgamma(|x|) once more (10+10, 36+2)
    [] id = 5 -> (IF t = "f32" THEN 36 ELSE 172) [] id = 6 -> 34 [] id = 7 -> 2 [] OTHER -> 0
\* What a recorded call must satisfy.  C14 asks for "a constant that does not grow with the magnitude of the arguments", not for the
\* analytic constants of the shipped recurrences (those are K_Gamma's subject): a harmless change of a threshold may add iterations.
\* The trace bound is therefore one generous constant for every loop - any loop whose trip count follows the argument passes it at once
\* (the plans contain arguments up to 2^60 and +-inf) - while the tight per-loop constants are reported in the evidence (max observed).
TraceBound == 256
CallOK(fn, t, ticks) == \A id \in LoopIds : IF id \in LoopsOf(fn, t) THEN ticks[id] <= TraceBound ELSE ticks[id] = 0
TightOK(fn, t, ticks) == \A id \in LoopIds : IF id \in LoopsOf(fn, t) THEN ticks[id] <= BoundOf(fn, t, id) ELSE ticks[id] = 0
CallWith(fn, t, ticks) == CallOK(fn, t, ticks) /\ loop' = [fn |-> fn, t |-> t, ticks |-> ticks]
=============================================================================
