---- MODULE K_Ipow_TTrace_1790724885 ----
EXTENDS Sequences, TLCExt, Toolbox, Naturals, TLC, K_Ipow

_expression ==
    LET K_Ipow_TEExpression == INSTANCE K_Ipow_TEExpression
    IN K_Ipow_TEExpression!expression
----

_trace ==
    LET K_Ipow_TETrace == INSTANCE K_Ipow_TETrace
    IN K_Ipow_TETrace!trace
----

_inv ==
    ~(
        TLCGet("level") = Len(_TETrace)
        /\
        b = (-1)
        /\
        pc = ("loop")
        /\
        it = (13)
        /\
        ea = (8192)
        /\
        er = (6145)
        /\
        n = (-2047)
    )
----

_init ==
    /\ b = _TETrace[1].b
    /\ n = _TETrace[1].n
    /\ it = _TETrace[1].it
    /\ pc = _TETrace[1].pc
    /\ ea = _TETrace[1].ea
    /\ er = _TETrace[1].er
----

_next ==
    /\ \E i,j \in DOMAIN _TETrace:
        /\ \/ /\ j = i + 1
              /\ i = TLCGet("level")
        /\ b  = _TETrace[i].b
        /\ b' = _TETrace[j].b
        /\ n  = _TETrace[i].n
        /\ n' = _TETrace[j].n
        /\ it  = _TETrace[i].it
        /\ it' = _TETrace[j].it
        /\ pc  = _TETrace[i].pc
        /\ pc' = _TETrace[j].pc
        /\ ea  = _TETrace[i].ea
        /\ ea' = _TETrace[j].ea
        /\ er  = _TETrace[i].er
        /\ er' = _TETrace[j].er

\* Uncomment the ASSUME below to write the states of the error trace
\* to the given file in Json format. Note that you can pass any tuple
\* to `JsonSerialize`. For example, a sub-sequence of _TETrace.
    \* ASSUME
    \*     LET J == INSTANCE Json
    \*         IN J!JsonSerialize("K_Ipow_TTrace_1790724885.json", _TETrace)

=============================================================================

 Note that you can extract this module `K_Ipow_TEExpression`
  to a dedicated file to reuse `expression` (the module in the 
  dedicated `K_Ipow_TEExpression.tla` file takes precedence 
  over the module `K_Ipow_TEExpression` below).

---- MODULE K_Ipow_TEExpression ----
EXTENDS Sequences, TLCExt, Toolbox, Naturals, TLC, K_Ipow

expression == 
    [
        \* To hide variables of the `K_Ipow` spec from the error trace,
        \* remove the variables below.  The trace will be written in the order
        \* of the fields of this record.
        b |-> b
        ,n |-> n
        ,it |-> it
        ,pc |-> pc
        ,ea |-> ea
        ,er |-> er
        
        \* Put additional constant-, state-, and action-level expressions here:
        \* ,_stateNumber |-> _TEPosition
        \* ,_bUnchanged |-> b = b'
        
        \* Format the `b` variable as Json value.
        \* ,_bJson |->
        \*     LET J == INSTANCE Json
        \*     IN J!ToJson(b)
        
        \* Lastly, you may build expressions over arbitrary sets of states by
        \* leveraging the _TETrace operator.  For example, this is how to
        \* count the number of times a spec variable changed up to the current
        \* state in the trace.
        \* ,_bModCount |->
        \*     LET F[s \in DOMAIN _TETrace] ==
        \*         IF s = 1 THEN 0
        \*         ELSE IF _TETrace[s].b # _TETrace[s-1].b
        \*             THEN 1 + F[s-1] ELSE F[s-1]
        \*     IN F[_TEPosition - 1]
    ]

=============================================================================



Parsing and semantic processing can take forever if the trace below is long.
 In this case, it is advised to uncomment the module below to deserialize the
 trace from a generated binary file.

\*
\*---- MODULE K_Ipow_TETrace ----
\*EXTENDS IOUtils, TLC, K_Ipow
\*
\*trace == IODeserialize("K_Ipow_TTrace_1790724885.bin", TRUE)
\*
\*=============================================================================
\*

---- MODULE K_Ipow_TETrace ----
EXTENDS TLC, K_Ipow

trace == 
    <<
    ([b |-> -2047,pc |-> "loop",it |-> 0,ea |-> 1,er |-> 0,n |-> -2047]),
    ([b |-> -1024,pc |-> "loop",it |-> 1,ea |-> 2,er |-> 1,n |-> -2047]),
    ([b |-> -512,pc |-> "loop",it |-> 2,ea |-> 4,er |-> 1,n |-> -2047]),
    ([b |-> -256,pc |-> "loop",it |-> 3,ea |-> 8,er |-> 1,n |-> -2047]),
    ([b |-> -128,pc |-> "loop",it |-> 4,ea |-> 16,er |-> 1,n |-> -2047]),
    ([b |-> -64,pc |-> "loop",it |-> 5,ea |-> 32,er |-> 1,n |-> -2047]),
    ([b |-> -32,pc |-> "loop",it |-> 6,ea |-> 64,er |-> 1,n |-> -2047]),
    ([b |-> -16,pc |-> "loop",it |-> 7,ea |-> 128,er |-> 1,n |-> -2047]),
    ([b |-> -8,pc |-> "loop",it |-> 8,ea |-> 256,er |-> 1,n |-> -2047]),
    ([b |-> -4,pc |-> "loop",it |-> 9,ea |-> 512,er |-> 1,n |-> -2047]),
    ([b |-> -2,pc |-> "loop",it |-> 10,ea |-> 1024,er |-> 1,n |-> -2047]),
    ([b |-> -1,pc |-> "loop",it |-> 11,ea |-> 2048,er |-> 1,n |-> -2047]),
    ([b |-> -1,pc |-> "loop",it |-> 12,ea |-> 4096,er |-> 2049,n |-> -2047]),
    ([b |-> -1,pc |-> "loop",it |-> 13,ea |-> 8192,er |-> 6145,n |-> -2047])
    >>
----


=============================================================================

---- CONFIG K_Ipow_TTrace_1790724885 ----
CONSTANTS
    W = 12
    Signed = TRUE
    Halving = "shift"

INVARIANT
    _inv

CHECK_DEADLOCK
    \* CHECK_DEADLOCK off because of PROPERTY or INVARIANT above.
    FALSE

INIT
    _init

NEXT
    _next

CONSTANT
    _TETrace <- _trace

ALIAS
    _expression
=============================================================================
\* Generated on Tue Sep 29 23:34:47 UTC 2026