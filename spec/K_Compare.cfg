CONSTANT Variant = "shipped"
INIT Init
NEXT Next
INVARIANTS Wide64OK Cmp16OK
CHECK_DEADLOCK FALSE
