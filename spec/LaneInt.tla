------------------------------- MODULE LaneInt -------------------------------
(***************************************************************************)
(* Lane relation of the integer element-wise operations (properties C01,    *)
(* C07 and their scalar overloads, C17): IntRel(op, S, x, y, z, m, imm, r)   *)
(* holds iff r is an allowed result lane of operation op on operand lanes    *)
(* x, y, z (digit sequences of the lane width), Boolean mask lane m and      *)
(* scalar count imm, for signedness S.  Where the property leaves the result *)
(* unconstrained (division by zero, MIN / -1, counts outside [0, bits),      *)
(* signed avgr of a negative sum) the relation is TRUE.                      *)
(***************************************************************************)
EXTENDS BvLane

IntOpsC01 == {"add", "sub", "mul", "neg", "abs", "min", "max", "fmin", "fmax", "incr", "decr", "incr_if", "decr_if",
              "fma", "fms", "fnma", "fnms", "divmod", "sign", "sadd", "ssub", "avg", "avgr", "clip",
              "op+", "op-", "op*", "op/%", "op-u",
              "op+=", "op-=", "op*=", "op/%=", "op++", "op--", "op++post", "op--post", "op++old", "op--old", "op+u", "land", "lor"}
IntOpsC07 == {"and", "or", "xor", "not", "andnot", "op&", "op|", "op^", "op~", "shl", "shr", "rotl", "rotr",
              "shlv", "shrv", "rotlv", "rotrv", "op<<", "op>>", "op<<v", "op>>v",
              "op&=", "op|=", "op^=", "op<<=", "op>>=", "op<<=v", "op>>=v"}

\* a per-lane count taken from a lane of the same type: usable iff 0 <= count < bits
CountOK(y) == BLt(y, FromInt(WB(y)))
Cnt(y) == ToInt(Fix(y, 1))

\* Division is judged by characterisation, on the quotient lane q and the remainder lane rm together:
\* |x| = |q|*|y| + |rm|, |rm| < |y|, the quotient is negative iff the operand signs differ (unless it is zero)
\* and the remainder has the dividend's sign (unless it is zero): C/C++ truncating division.  This is two
\* multiplications instead of a 64-step long division; LaneEquiv checks it against VDiv/VRem at W = 8.
DivModRel(S, x, y, q, rm) ==
  VDivDefined(S, x, y) =>
    /\ BEq(Mag(S, x), BAdd(BMul(Mag(S, q), Mag(S, y)), Mag(S, rm)))
    /\ BLt(Mag(S, rm), Mag(S, y))
    /\ (IsZero(q) \/ IsNeg(S, q) = (IsNeg(S, x) # IsNeg(S, y)))
    /\ (IsZero(rm) \/ IsNeg(S, rm) = IsNeg(S, x))

\* member operators denote the named operation: x op= y leaves (and returns) x op y, ++x / x++ leave x + 1, x++ returns the old x, +x is x
Canon(op) ==
  CASE op = "op+=" -> "add" [] op = "op-=" -> "sub" [] op = "op*=" -> "mul" [] op = "op&=" -> "and" [] op = "op|=" -> "or" [] op = "op^=" -> "xor"
    [] op \in {"op++", "op++post"} -> "incr" [] op \in {"op--", "op--post"} -> "decr" [] op \in {"op++old", "op--old", "op+u"} -> "id"
    [] op = "op<<=" -> "shl" [] op = "op>>=" -> "shr" [] op = "op<<=v" -> "shlv" [] op = "op>>=v" -> "shrv" [] op = "op/%=" -> "op/%"
    [] OTHER -> op
IntRel0(op, S, x, y, z, m, imm, r) ==
  CASE op \in {"add", "op+"}  -> r = VAdd(x, y)
    [] op = "id"      -> r = x
    [] op \in {"sub", "op-"}  -> r = VSub(x, y)
    [] op \in {"mul", "op*"}  -> r = VMul(x, y)
    [] op \in {"neg", "op-u"} -> r = VNeg(x)
    [] op = "abs"     -> r = VAbs(S, x)
    [] op \in {"min", "fmin"} -> r = VMin(S, x, y)
    [] op \in {"max", "fmax"} -> r = VMax(S, x, y)
    [] op = "incr"    -> r = VIncr(x)
    [] op = "decr"    -> r = VDecr(x)
    [] op = "incr_if" -> r = IF m THEN VIncr(x) ELSE x
    [] op = "decr_if" -> r = IF m THEN VDecr(x) ELSE x
    [] op = "fma"     -> r = VFma(x, y, z)
    [] op = "fms"     -> r = VFms(x, y, z)
    [] op = "fnma"    -> r = VFnma(x, y, z)
    [] op = "fnms"    -> r = VFnms(x, y, z)
    [] op = "sign"    -> r = VSign(S, x)
    [] op = "clip"    -> VLe(S, y, z) => r = (IF VLt(S, x, y) THEN y ELSE IF VLt(S, z, x) THEN z ELSE x)     \* clip(x, lo, hi), lo <= hi
    \* batch && batch, batch || batch (beyond the listed properties): the C++ truth value of the lanes as 0 / 1 of the element type
    [] op = "land"    -> r = (IF ~IsZero(x) /\ ~IsZero(y) THEN VIncr(VSub(x, x)) ELSE VSub(x, x))
    [] op = "lor"     -> r = (IF ~IsZero(x) \/ ~IsZero(y) THEN VIncr(VSub(x, x)) ELSE VSub(x, x))
    [] op = "sadd"    -> r = VSadd(S, x, y)
    [] op = "ssub"    -> r = VSsub(S, x, y)
    [] op = "avg"     -> r = VAvg(S, x, y)
    [] op = "avgr"    -> VAvgrConstrained(S, x, y) => r = VAvgr(S, x, y)
    [] op \in {"and", "op&"} -> r = VAnd(x, y)
    [] op \in {"or", "op|"}  -> r = VOr(x, y)
    [] op \in {"xor", "op^"} -> r = VXor(x, y)
    [] op \in {"not", "op~"} -> r = VNot(x)
    [] op = "andnot"  -> r = VAndNot(x, y)
    [] op \in {"shl", "op<<"} -> (imm >= 0 /\ imm < WB(x)) => r = VShl(x, imm)
    [] op \in {"shr", "op>>"} -> (imm >= 0 /\ imm < WB(x)) => r = VShr(S, x, imm)
    [] op = "rotl"    -> (imm >= 0 /\ imm < WB(x)) => r = VRotl(x, imm)
    [] op = "rotr"    -> (imm >= 0 /\ imm < WB(x)) => r = VRotr(x, imm)
    [] op \in {"shlv", "op<<v"} -> CountOK(y) => r = VShl(x, Cnt(y))
    [] op \in {"shrv", "op>>v"} -> CountOK(y) => r = VShr(S, x, Cnt(y))
    [] op = "rotlv"   -> CountOK(y) => r = VRotl(x, Cnt(y))
    [] op = "rotrv"   -> CountOK(y) => r = VRotr(x, Cnt(y))
    [] OTHER -> FALSE
IntRel(op, S, x, y, z, m, imm, r) == IntRel0(Canon(op), S, x, y, z, m, imm, r)

(***************************************************************************)
(* Known deviation of the code from C07 (recorded in known_findings.json,    *)
(* id rot-signed): on SIGNED lanes rotl/rotr are computed with                *)
(* N = numeric_limits<T>::digits = bits-1 and an arithmetic right shift       *)
(* (xsimd_generic_arithmetic.hpp:167-181, xsimd_scalar.hpp:446-460).  The      *)
(* repository's own test (test_xsimd_api.cpp:377-392) pins this behaviour, so  *)
(* it cannot be repaired without editing the suite.  The trace specification   *)
(* classifies a rejected rotate lane as this finding only if the observed lane *)
(* is EXACTLY what the shipped formula yields - any other wrong result is      *)
(* still a violation.                                                          *)
(***************************************************************************)
RotSignedShipped(op, S, x, y, imm, r) ==
  /\ S
  /\ LET n == IF op \in {"rotl", "rotr"} THEN imm ELSE Cnt(y)
         ok == IF op \in {"rotl", "rotr"} THEN imm >= 0 /\ imm < WB(x) ELSE CountOK(y)
     IN ok /\ CASE op \in {"rotl", "rotlv"} -> r = VOr(VShl(x, n), VShrA(x, WB(x) - 1 - n))
                 [] op \in {"rotr", "rotrv"} -> r = VOr(VShrA(x, n), VShl(x, WB(x) - 1 - n))
                 [] OTHER -> FALSE
=============================================================================
