------------------------------- MODULE BigNat -------------------------------
(***************************************************************************)
(* Natural numbers of unbounded size as little-endian sequences of base-256 *)
(* digits.  TLC integers are 32-bit and raise "Overflow" (they never wrap), *)
(* so every 32/64-bit lane value, every IEEE significand product and every  *)
(* pointer of the xsimd machine is one of these sequences.  A sequence need *)
(* not be normalised (high zero digits are allowed); all operators accept   *)
(* operands of different lengths.                                           *)
(*                                                                         *)
(* Self-checks: BigNatCheck.tla / BigNatCheck.cfg compare every operator    *)
(* with native Integers arithmetic on all operand pairs below 2^12.         *)
(***************************************************************************)
EXTENDS Integers, Sequences

B256 == 256

Dig(a, i) == IF i >= 1 /\ i <= Len(a) THEN a[i] ELSE 0
MaxI(x, y) == IF x >= y THEN x ELSE y
MinI(x, y) == IF x <= y THEN x ELSE y

IsDigits(a) == \A i \in 1 .. Len(a) : a[i] \in 0 .. 255

RECURSIVE NormLen(_, _)
NormLen(a, n) == IF n = 0 THEN 0 ELSE IF a[n] # 0 THEN n ELSE NormLen(a, n - 1)
Norm(a) == SubSeq(a, 1, NormLen(a, Len(a)))
IsZero(a) == NormLen(a, Len(a)) = 0

\* fixed-width view: exactly n digits (truncates = reduces modulo 256^n, or zero-extends)
\* NOTE on evaluation: TLC represents [i \in S |-> e] as a lazy closure that re-evaluates e on
\* every application, so nested shifts/fixes would cost time exponential in the nesting depth.
\* Every digit-sequence constructor is therefore wrapped in SubSeq(_, 1, n), whose Java
\* implementation materialises the function as a tuple once.
Seq1(f, n) == SubSeq(f, 1, n)
Fix(a, n) == Seq1([i \in 1 .. n |-> Dig(a, i)], n)
ZeroN(n) == Seq1([i \in 1 .. n |-> 0], n)

\* small integers <-> digit sequences (v < 2^31)
RECURSIVE FromInt(_)
FromInt(v) == IF v = 0 THEN <<>> ELSE <<v % 256>> \o FromInt(v \div 256)
RECURSIVE ToIntRec(_, _)
ToIntRec(a, i) == IF i > Len(a) THEN 0 ELSE a[i] + 256 * ToIntRec(a, i + 1)
ToInt(a) == ToIntRec(Norm(a), 1)            \* caller guarantees the value is < 2^31

RECURSIVE CmpRec(_, _, _)
CmpRec(a, b, i) == IF i = 0 THEN 0
                   ELSE IF Dig(a, i) > Dig(b, i) THEN 1
                   ELSE IF Dig(a, i) < Dig(b, i) THEN -1
                   ELSE CmpRec(a, b, i - 1)
BCmp(a, b) == CmpRec(a, b, MaxI(Len(a), Len(b)))
BEq(a, b) == BCmp(a, b) = 0
BLt(a, b) == BCmp(a, b) < 0
BLe(a, b) == BCmp(a, b) <= 0

RECURSIVE AddRec(_, _, _, _, _)
AddRec(a, b, i, c, n) == IF i > n THEN (IF c = 0 THEN <<>> ELSE <<c>>)
                         ELSE LET s == Dig(a, i) + Dig(b, i) + c
                              IN <<s % 256>> \o AddRec(a, b, i + 1, s \div 256, n)
BAdd(a, b) == AddRec(a, b, 1, 0, MaxI(Len(a), Len(b)))

\* a - b for a >= b (the final borrow is dropped, i.e. the result is modulo 256^n otherwise)
RECURSIVE SubRec(_, _, _, _, _)
SubRec(a, b, i, br, n) == IF i > n THEN <<>>
                          ELSE LET s == Dig(a, i) - Dig(b, i) - br
                               IN IF s < 0 THEN <<s + 256>> \o SubRec(a, b, i + 1, 1, n)
                                  ELSE <<s>> \o SubRec(a, b, i + 1, 0, n)
BSub(a, b) == SubRec(a, b, 1, 0, MaxI(Len(a), Len(b)))

\* schoolbook product; column sums stay below 16 * 255^2 + carry < 2^31 for operands up to 2^14 digits long
RECURSIVE ColSum(_, _, _, _)
ColSum(a, b, k, i) == IF i > Len(a) \/ i > k THEN 0
                      ELSE a[i] * Dig(b, k - i + 1) + ColSum(a, b, k, i + 1)
RECURSIVE MulRec(_, _, _, _, _)
MulRec(a, b, k, c, n) == IF k > n THEN <<>>
                         ELSE LET s == ColSum(a, b, k, 1) + c
                              IN <<s % 256>> \o MulRec(a, b, k + 1, s \div 256, n)
BMul(a, b) == IF Len(a) = 0 \/ Len(b) = 0 THEN <<>> ELSE MulRec(a, b, 1, 0, Len(a) + Len(b))

\* multiplication by a small integer (< 2^22)
RECURSIVE MulSmallRec(_, _, _, _)
MulSmallRec(a, m, i, c) == IF i > Len(a) THEN FromInt(c)
                           ELSE LET s == a[i] * m + c IN <<s % 256>> \o MulSmallRec(a, m, i + 1, s \div 256)
BMulSmall(a, m) == MulSmallRec(a, m, 1, 0)

Pow2(k) == 2 ^ k                              \* k <= 30

\* bit access
Bit(a, i) == (Dig(a, (i \div 8) + 1) \div Pow2(i % 8)) % 2        \* bit i (0 = least significant)
TopBits(d) == IF d >= 128 THEN 8 ELSE IF d >= 64 THEN 7 ELSE IF d >= 32 THEN 6 ELSE IF d >= 16 THEN 5
              ELSE IF d >= 8 THEN 4 ELSE IF d >= 4 THEN 3 ELSE IF d >= 2 THEN 2 ELSE IF d >= 1 THEN 1 ELSE 0
BitLen(a) == LET n == NormLen(a, Len(a)) IN IF n = 0 THEN 0 ELSE 8 * (n - 1) + TopBits(a[n])

\* shifts by a bit count k >= 0
BShl(a, k) == LET q == k \div 8  r == k % 8  n == Len(a) + q + 1
              IN Seq1([i \in 1 .. n |->
                    IF i <= q THEN 0
                    ELSE ((Dig(a, i - q) * Pow2(r)) % 256) + (Dig(a, i - q - 1) * Pow2(r)) \div 256], n)
BShr(a, k) == LET q == k \div 8  r == k % 8  n == MaxI(Len(a) - q, 0)
              IN Seq1([i \in 1 .. n |->
                    (Dig(a, i + q) \div Pow2(r)) + ((Dig(a, i + q + 1) * Pow2(8 - r)) % 256)], n)
\* are any of the low k bits set?
RECURSIVE LowNZRec(_, _, _)
LowNZRec(a, q, i) == IF i > q THEN FALSE ELSE IF Dig(a, i) # 0 THEN TRUE ELSE LowNZRec(a, q, i + 1)
LowBitsNZ(a, k) == IF k <= 0 THEN FALSE
                   ELSE LowNZRec(a, k \div 8, 1) \/ (Dig(a, (k \div 8) + 1) % Pow2(k % 8)) # 0

\* digit-wise Boolean operators on equal-length views
AndD(x, y) == LET f[i \in 0 .. 8] == IF i = 8 THEN 0
                     ELSE (IF (x \div Pow2(i)) % 2 = 1 /\ (y \div Pow2(i)) % 2 = 1 THEN Pow2(i) ELSE 0) + f[i + 1]
              IN f[0]
OrD(x, y) == x + y - AndD(x, y)
XorD(x, y) == x + y - 2 * AndD(x, y)
BAnd(a, b, n) == Seq1([i \in 1 .. n |-> AndD(Dig(a, i), Dig(b, i))], n)
BOr(a, b, n)  == Seq1([i \in 1 .. n |-> OrD(Dig(a, i), Dig(b, i))], n)
BXor(a, b, n) == Seq1([i \in 1 .. n |-> XorD(Dig(a, i), Dig(b, i))], n)
BNot(a, n)    == Seq1([i \in 1 .. n |-> 255 - Dig(a, i)], n)

\* a mod d for a small divisor d (< 2^22), from the most significant digit down
RECURSIVE ModSmallRec(_, _, _, _)
ModSmallRec(a, d, i, r) == IF i = 0 THEN r ELSE ModSmallRec(a, d, i - 1, (r * 256 + a[i]) % d)
BModSmall(a, d) == ModSmallRec(a, d, Len(a), 0)

One == <<1>>
BPow2(k) == BShl(One, k)                      \* 2^k as a digit sequence
=============================================================================
