----------------------------- MODULE LaneEquiv -----------------------------
(* TLC checks, for EVERY operand pair of an 8-bit lane (signed and unsigned),*)
(* that the digit-sequence semantics (BvLane, used to judge real traces of   *)
(* any width) equals the definitional semantics on mathematical integers     *)
(* (IntLane).  The ternary operations are checked on all (a, b) x a 16-value *)
(* lattice of c.  At 2 digits (W = 16) the same is checked without products  *)
(* (native 32-bit integers cannot hold them) on a boundary lattice.          *)
EXTENDS LaneInt, TLC
VARIABLES a, ph
I == INSTANCE IntLane
W == 8
F(v) == Fix(FromInt(v), 1)
CL == {0, 1, 2, 3, 7, 8, 63, 64, 127, 128, 129, 191, 200, 254, 255, 85}
Init == a \in 0 .. 15 /\ ph = 0
Next == ph = 0 /\ ph' = 1 /\ a' \in {x \in 0 .. 255 : x % 16 = a}

PairOK(S, x, y) ==
  LET X == F(x)  Y == F(y) IN
  /\ VAdd(X, Y) = F(I!Add(W, S, x, y))
  /\ VSub(X, Y) = F(I!Sub(W, S, x, y))
  /\ VMul(X, Y) = F(I!Mul(W, S, x, y))
  /\ VNeg(X) = F(I!Neg(W, S, x))
  /\ VAbs(S, X) = F(I!Abs(W, S, x))
  /\ VMin(S, X, Y) = F(I!Min(W, S, x, y))
  /\ VMax(S, X, Y) = F(I!Max(W, S, x, y))
  /\ VIncr(X) = F(I!Incr(W, S, x))
  /\ VDecr(X) = F(I!Decr(W, S, x))
  /\ VSign(S, X) = F(I!Sign(W, S, x))
  /\ VSadd(S, X, Y) = F(I!Sadd(W, S, x, y))
  /\ VSsub(S, X, Y) = F(I!Ssub(W, S, x, y))
  /\ VAvg(S, X, Y) = F(I!Avg(W, S, x, y))
  /\ VAvgrConstrained(S, X, Y) = I!AvgrConstrained(W, S, x, y)
  /\ (I!AvgrConstrained(W, S, x, y) => VAvgr(S, X, Y) = F(I!Avgr(W, S, x, y)))
  /\ VDivDefined(S, X, Y) = I!DivDefined(W, S, x, y)
  /\ (I!DivDefined(W, S, x, y) => /\ VDiv(S, X, Y) = F(I!Div(W, S, x, y))
                                  /\ VRem(S, X, Y) = F(I!Rem(W, S, x, y)))
  /\ (I!DivDefined(W, S, x, y) =>
        \* the characterisation accepts the true (quotient, remainder) pair and no neighbouring one
        /\ DivModRel(S, X, Y, VDiv(S, X, Y), VRem(S, X, Y))
        /\ \A dq \in {-1, 0, 1}, dr \in {-2, -1, 0, 1, 2} :
              (dq # 0 \/ dr # 0) => ~DivModRel(S, X, Y, F((I!Div(W, S, x, y) + dq) % 256), F((I!Rem(W, S, x, y) + dr) % 256)))
  /\ VLt(S, X, Y) = (I!Val(W, S, x) < I!Val(W, S, y))
  /\ VAnd(X, Y) = F(I!AndI(W, x, y))
  /\ VOr(X, Y) = F(I!OrI(W, x, y))
  /\ VXor(X, Y) = F(I!XorI(W, x, y))
  /\ VNot(X) = F(I!NotI(W, x))
  /\ VAndNot(X, Y) = F(I!AndNotI(W, x, y))
  /\ (y < W => /\ VShl(X, y) = F(I!Shl(W, x, y))
               /\ VShr(S, X, y) = F(I!Shr(W, S, x, y))
               /\ VRotl(X, y) = F(I!Rotl(W, x, y))
               /\ VRotr(X, y) = F(I!Rotr(W, x, y)))
  /\ \A c \in CL : LET C == F(c) IN
       /\ VFma(X, Y, C) = F(I!Fma(W, S, x, y, c))
       /\ VFms(X, Y, C) = F(I!Fms(W, S, x, y, c))
       /\ VFnma(X, Y, C) = F(I!Fnma(W, S, x, y, c))
       /\ VFnms(X, Y, C) = F(I!Fnms(W, S, x, y, c))

Equiv8 == ph = 0 \/ \A y \in 0 .. 255 : PairOK(TRUE, a, y) /\ PairOK(FALSE, a, y)

\* 16-bit: two digits, no products
F2(v) == Fix(FromInt(v), 2)
L16 == {0, 1, 2, 255, 256, 257, 32766, 32767, 32768, 32769, 65534, 65535, 21845, 43690, 4660, 65280}
Pair16(S, x, y) ==
  LET X == F2(x)  Y == F2(y) IN
  /\ VAdd(X, Y) = F2(I!Add(16, S, x, y))
  /\ VSub(X, Y) = F2(I!Sub(16, S, x, y))
  /\ VSadd(S, X, Y) = F2(I!Sadd(16, S, x, y))
  /\ VSsub(S, X, Y) = F2(I!Ssub(16, S, x, y))
  /\ VAvg(S, X, Y) = F2(I!Avg(16, S, x, y))
  /\ (I!AvgrConstrained(16, S, x, y) => VAvgr(S, X, Y) = F2(I!Avgr(16, S, x, y)))
  /\ VMin(S, X, Y) = F2(I!Min(16, S, x, y))
  /\ VAbs(S, X) = F2(I!Abs(16, S, x))
  /\ (I!DivDefined(16, S, x, y) => /\ VDiv(S, X, Y) = F2(I!Div(16, S, x, y))
                                   /\ VRem(S, X, Y) = F2(I!Rem(16, S, x, y)))
  /\ \A k \in 0 .. 15 : /\ VShl(X, k) = F2(I!Shl(16, x, k))
                        /\ VShr(S, X, k) = F2(I!Shr(16, S, x, k))
                        /\ VRotl(X, k) = F2(I!Rotl(16, x, k))
                        /\ VRotr(X, k) = F2(I!Rotr(16, x, k))
Equiv16 == ph = 1 \/ \A x \in L16, y \in L16 : Pair16(a < 8, x, y)
=============================================================================
