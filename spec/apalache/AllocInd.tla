------------------------------ MODULE AllocInd ------------------------------
(***************************************************************************)
(* Unbounded safety of the allocator DESIGN of property C18 (the actions of   *)
(* Alloc.tla over mathematical integers): HeapInv - live blocks are pairwise  *)
(* disjoint and aligned - is an INDUCTIVE invariant of allocate/deallocate     *)
(* for an unbounded address space, any number of live blocks (checked by       *)
(* Apalache for states of up to MaxLive blocks) and every request size.        *)
(*   apalache-mc check --init=Init    --inv=HeapInv --length=0 AllocInd.tla    *)
(*   apalache-mc check --init=IndInit --inv=HeapInv --length=1 AllocInd.tla    *)
(***************************************************************************)
EXTENDS Integers, FiniteSets, Apalache
VARIABLE
  \* @type: Set({ base: Int, size: Int, align: Int });
  live
Aligns == {8, 16, 32, 64, 128, 256, 512, 1024, 2048, 4096}
End(b, s) == b + (IF s = 0 THEN 1 ELSE s)                   \* empty blocks occupy their base address
Disjoint(b1, s1, b2, s2) == End(b1, s1) <= b2 \/ End(b2, s2) <= b1
HeapInv == /\ \A x \in live : \A y \in live : x # y => Disjoint(x.base, x.size, y.base, y.size)
           /\ \A x \in live : x.base % x.align = 0 /\ x.base > 0 /\ x.size >= 0 /\ x.align \in Aligns
Init == live = {}
\* allocate(n) of sizeof(T) = sz with alignment a returns p (AllocOKWith of Alloc.tla) or fails (stutter)
AllocOK == \E p \in Int : \E sz \in 1 .. 64 : \E n \in Nat : \E a \in Aligns :
             /\ p > 0 /\ p % a = 0
             /\ \A b \in live : Disjoint(p, n * sz, b.base, b.size)
             /\ live' = live \union {[base |-> p, size |-> n * sz, align |-> a]}
Dealloc == \E b \in live : live' = live \ {b}
Next == AllocOK \/ Dealloc \/ UNCHANGED live
\* an arbitrary state with at most 4 live blocks that satisfies the invariant
IndInit == live = Gen(4) /\ HeapInv
=============================================================================
