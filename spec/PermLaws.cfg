CONSTANTS Ns = {2, 4, 8, 16}
 NIdx = 4
INIT Init
NEXT Next
INVARIANTS CountLaws MaskLaws IdxLaws TransposeLaw
CHECK_DEADLOCK FALSE
