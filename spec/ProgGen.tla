------------------------------- MODULE ProgGen -------------------------------
(***************************************************************************)
(* Behaviour generator for the program machine (spec -> impl direction): the   *)
(* language of straight-line programs of one flavour, one instruction appended   *)
(* per step.  TLC walks it in simulation mode (-simulate num=N -depth Depth+1);    *)
(* every behaviour that reaches Depth instructions is printed as one JSON line     *)
(* and replayed against the real batches by lib/prog.py; T_Prog then judges the     *)
(* recorded rows step by step.  The instruction alphabet is derived from the         *)
(* same table ProgOps that defines the machine (Prog.tla): an instruction of          *)
(* the flavour, applicable to the element kind, with every assignment of the           *)
(* register fields its class reads (unused fields are 0) over Regs, and every           *)
(* immediate of Imms for the shift/rotate classes.                                       *)
(***************************************************************************)
EXTENDS Prog, Json
CONSTANTS Flavour, Kind, Depth, Regs, Imms
VARIABLE prg
NF(cls) == CASE cls \in {"cew1", "cewi"} -> 1
             [] cls \in {"mov", "ew1", "ewi", "cew2", "mm1", "mmov", "cmm2"} -> 2
             [] cls \in {"ew2", "ewm", "cmp", "mm2"} -> 3
             [] OTHER -> 4
KindOK(o) == IF Kind = "float" THEN "float" \in o.k ELSE IF Kind = "uint" THEN ("uint" \in o.k \/ "int" \in o.k) ELSE "int" \in o.k
Alphabet ==
  UNION {LET o == ProgOps[i]  nf == NF(o.cls) IN
         IF Flavour \notin o.fl \/ ~KindOK(o) THEN {}
         ELSE {<<i, d, a, b, c, imm>> : d \in Regs, a \in (IF nf >= 2 THEN Regs ELSE {0}), b \in (IF nf >= 3 THEN Regs ELSE {0}),
                                         c \in (IF nf >= 4 THEN Regs ELSE {0}), imm \in (IF o.cls \in {"ewi", "cewi"} THEN Imms ELSE {0})}
         : i \in 1 .. Len(ProgOps)}
Init == /\ prg = <<>> /\ pc = 0 /\ R = <<>> /\ M = <<>> /\ reg = <<>> /\ breg = <<>> /\ last = <<>>
\* the complete program is printed by the step taken FROM it (simulation mode generates every successor of the state it stands on,
\* so an invariant on the successors would print every one-instruction variation of the last step)
Next == \/ /\ Len(prg) < Depth
           /\ \E ins \in Alphabet : prg' = Append(prg, ins)
           /\ UNCHANGED <<pvars, xvars>>
        \/ /\ Len(prg) = Depth
           /\ PrintT("PROG " \o ToJson(prg))
           /\ prg' = Append(prg, <<0, 0, 0, 0, 0, 0>>)
           /\ UNCHANGED <<pvars, xvars>>
=============================================================================
