----------------------------- MODULE K_ShufflePat -----------------------------
(***************************************************************************)
(* Kernel refinement (property C05): the pattern detectors of the generic     *)
(* two-operand shuffle (xsimd_generic_memory.hpp:436-535) - is_swizzle_fst,    *)
(* is_swizzle_snd, is_zip_lo, is_zip_hi, is_select - transcribed with their     *)
(* variadic recursion (position p is recognised through the number of           *)
(* remaining indices), and the dispatch they drive.  TLC enumerates EVERY index  *)
(* vector of 2 and 4 lanes ((2n)^n of them) and structured families of 8 lanes   *)
(* and checks that the dispatched kernel equals the definition Perm!Shuffle.     *)
(* Shipped = TRUE reproduces the detectors as they were shipped: the model then  *)
(* exhibits shuffle<0,4,2,6> -> zip_lo (finding shuffle-zip-detector, repaired   *)
(* by b7ab49a); K_ShufflePatAsShipped.cfg must be violated.                      *)
(***************************************************************************)
EXTENDS Perm, TLC
CONSTANT Shipped
VARIABLES n, idx
TokX(nn) == Mk(nn, LAMBDA i : <<"x", i>>)
TokY(nn) == Mk(nn, LAMBDA i : <<"y", i>>)
\* rem = sizeof...(indices) after the current index (resp. pair) has been peeled off
RECURSIVE IsSwzFst(_, _, _), IsSwzSnd(_, _, _), IsZipLo(_, _, _), IsZipHi(_, _, _), IsSelect(_, _, _)
IsSwzFst(b, v, i) == IF i > Len(v) THEN TRUE ELSE v[i] < b /\ IsSwzFst(b, v, i + 1)
IsSwzSnd(b, v, i) == IF i > Len(v) THEN TRUE ELSE v[i] >= b /\ IsSwzSnd(b, v, i + 1)
PairPos(b, rem) == IF Shipped THEN b - (rem + 2) ELSE (b - (rem + 2)) \div 2
IsZipLo(b, v, i) == IF i > Len(v) THEN TRUE ELSE IF i = Len(v) THEN FALSE
                    ELSE LET rem == Len(v) - (i + 1) IN
                         v[i] = PairPos(b, rem) /\ v[i + 1] = b + PairPos(b, rem) /\ IsZipLo(b, v, i + 2)
IsZipHi(b, v, i) == IF i > Len(v) THEN TRUE ELSE IF i = Len(v) THEN FALSE
                    ELSE LET rem == Len(v) - (i + 1) IN
                         v[i] = b \div 2 + PairPos(b, rem) /\ v[i + 1] = b + b \div 2 + PairPos(b, rem) /\ IsZipHi(b, v, i + 2)
\* is_select as shipped (unchanged): position i is compared with bsize - sizeof...(rest) = i + 1 - it can never hold, which is harmless
IsSelect(b, v, i) == IF i > Len(v) THEN TRUE
                     ELSE (IF v[i] < b THEN v[i] ELSE v[i] - b) = b - (Len(v) - i) /\ IsSelect(b, v, i + 1)
ShuffleK(x, y, v) ==
  LET b == Len(x) IN
  IF IsSwzFst(b, v, 1) THEN Swizzle(x, v)
  ELSE IF IsSwzSnd(b, v, 1) THEN Swizzle(y, Mk(b, LAMBDA i : L(v, i) - b))
  ELSE IF IsZipLo(b, v, 1) THEN ZipLo(x, y)
  ELSE IF IsZipHi(b, v, 1) THEN ZipHi(x, y)
  ELSE IF IsSelect(b, v, 1) THEN Mk(b, LAMBDA i : IF L(v, i) < b THEN L(x, i) ELSE L(y, i))
  ELSE Shuffle(x, y, v)                                              \* the builtin / swizzle+select fallback: the definition itself
Families8 == LET n8 == 8 IN
  { Mk(n8, LAMBDA i : (i \div 2) + (IF i % 2 = 1 THEN n8 ELSE 0)),                  \* zip_lo
    Mk(n8, LAMBDA i : 4 + (i \div 2) + (IF i % 2 = 1 THEN n8 ELSE 0)),              \* zip_hi
    Mk(n8, LAMBDA i : 2 * (i \div 2) + (IF i % 2 = 1 THEN n8 ELSE 0)),              \* what the shipped is_zip_lo accepted
    Mk(n8, LAMBDA i : ((4 + 2 * (i \div 2)) % n8) + (IF i % 2 = 1 THEN n8 ELSE 0)),
    Mk(n8, LAMBDA i : i + (IF i % 2 = 1 THEN n8 ELSE 0)),                           \* select
    Mk(n8, LAMBDA i : ((i + 1) % n8) + (IF i % 2 = 1 THEN n8 ELSE 0)),                \* what is_select compares with
    Mk(n8, LAMBDA i : 7 - i), Mk(n8, LAMBDA i : 15 - i) }
Init == n \in {2, 4, 8} /\ idx = <<>>
Next == /\ idx = <<>>
        /\ idx' \in (IF n = 8 THEN Families8 ELSE [1 .. n -> 0 .. 2 * n - 1])
        /\ UNCHANGED n
ShufflePatOK == idx = <<>> \/ ShuffleK(TokX(n), TokY(n), idx) = Shuffle(TokX(n), TokY(n), idx)
\* after the repair the real zip patterns ARE recognised (they used to fall through to the slow path)
ZipRecognised == idx # <<>> \/ n = 2 \/
  /\ IsZipLo(n, Mk(n, LAMBDA i : (i \div 2) + (IF i % 2 = 1 THEN n ELSE 0)), 1)
  /\ IsZipHi(n, Mk(n, LAMBDA i : n \div 2 + (i \div 2) + (IF i % 2 = 1 THEN n ELSE 0)), 1)
=============================================================================
