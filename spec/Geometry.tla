------------------------------ MODULE Geometry ------------------------------
(***************************************************************************)
(* Architecture descriptions and batch geometry (property C20, and the       *)
(* static half of C15: the default list is best-first with best_arch first). *)
(* The specification's own table: the x86 architectures in best-first order  *)
(* with register width and extension parent.  Invariants are stated over a   *)
(* table `tab` of the same shape so that they can be evaluated both on this   *)
(* table (design level, GeometryModel) and on the table dumped from the real  *)
(* headers (T_Geometry).                                                      *)
(***************************************************************************)
EXTENDS Integers, Sequences, FiniteSets, TLC

SpecArchs == <<
  [name |-> "avx512vnni<avx512vbmi2>", bits |-> 512, parent |-> "avx512vbmi2"],
  [name |-> "avx512vbmi2", bits |-> 512, parent |-> "avx512vbmi"],
  [name |-> "avx512vbmi", bits |-> 512, parent |-> "avx512ifma"],
  [name |-> "avx512ifma", bits |-> 512, parent |-> "avx512bw"],
  [name |-> "avx512pf", bits |-> 512, parent |-> "avx512er"],
  [name |-> "avx512vnni<avx512bw>", bits |-> 512, parent |-> "avx512bw"],
  [name |-> "avx512bw", bits |-> 512, parent |-> "avx512dq"],
  [name |-> "avx512er", bits |-> 512, parent |-> "avx512cd"],
  [name |-> "avx512dq", bits |-> 512, parent |-> "avx512cd"],
  [name |-> "avx512cd", bits |-> 512, parent |-> "avx512f"],
  [name |-> "avx512f", bits |-> 512, parent |-> "generic"],
  [name |-> "avxvnni", bits |-> 256, parent |-> "avx2"],
  [name |-> "fma3<avx2>", bits |-> 256, parent |-> "avx2"],
  [name |-> "avx2", bits |-> 256, parent |-> "avx"],
  [name |-> "fma3<avx>", bits |-> 256, parent |-> "avx"],
  [name |-> "avx", bits |-> 256, parent |-> "generic"],
  [name |-> "fma4", bits |-> 128, parent |-> "sse4_2"],
  [name |-> "fma3<sse4_2>", bits |-> 128, parent |-> "sse4_2"],
  [name |-> "sse4_2", bits |-> 128, parent |-> "sse4_1"],
  [name |-> "sse4_1", bits |-> 128, parent |-> "ssse3"],
  [name |-> "ssse3", bits |-> 128, parent |-> "sse3"],
  [name |-> "sse3", bits |-> 128, parent |-> "sse2"],
  [name |-> "sse2", bits |-> 128, parent |-> "generic"] >>
SpecNames == [i \in 1 .. Len(SpecArchs) |-> SpecArchs[i].name]
SpecIdx(nm) == CHOOSE i \in 1 .. Len(SpecArchs) : SpecArchs[i].name = nm
IsSpecArch(nm) == \E i \in 1 .. Len(SpecArchs) : SpecArchs[i].name = nm
RegBytesOf(nm) == IF IsSpecArch(nm) THEN SpecArchs[SpecIdx(nm)].bits \div 8
                  ELSE IF nm = "emulated<128>" THEN 16 ELSE IF nm = "emulated<256>" THEN 32 ELSE IF nm = "emulated<512>" THEN 64 ELSE 0
IsPow2(n) == n >= 1 /\ \E k \in 0 .. 16 : n = 2 ^ k
Pos(list, nm) == CHOOSE i \in 1 .. Len(list) : list[i] = nm
InList(list, nm) == \E i \in 1 .. Len(list) : list[i] = nm
\* list is a sub-sequence of the best-first specification order
RECURSIVE IsSubSeqFrom(_, _, _, _)
IsSubSeqFrom(l, i, ref, j) == IF i > Len(l) THEN TRUE ELSE IF j > Len(ref) THEN FALSE
                              ELSE IF l[i] = ref[j] THEN IsSubSeqFrom(l, i + 1, ref, j + 1) ELSE IsSubSeqFrom(l, i, ref, j + 1)
\* "best-first" as a partial order (the properties fix no order between unrelated extensions of the same width): a wider register file
\* first, and an architecture before everything it (transitively) extends
RECURSIVE ExtendsN(_, _)
ExtendsN(a, b) == IsSpecArch(a) /\ LET p == SpecArchs[SpecIdx(a)].parent IN p # "generic" /\ (p = b \/ ExtendsN(p, b))
BetterN(a, b) == RegBytesOf(a) > RegBytesOf(b) \/ ExtendsN(a, b)
BestFirst(list) == /\ \A i \in 1 .. Len(list) : IsSpecArch(list[i])
                   /\ \A i, j \in 1 .. Len(list) : i < j => (list[i] # list[j] /\ ~BetterN(list[j], list[i]))
ASSUME BestFirst(SpecNames)

\* ---- invariants over records of the dumped shape ------------------------------------------------------
ArchRecOK(a) ==
  /\ IsPow2(a.alignment)
  /\ (a.requires_alignment = 1 => a.alignment >= RegBytesOf(a.name))      \* what aligned loads of A require
  /\ (IsSpecArch(a.name) => a.alignment >= RegBytesOf(a.name) /\ a.requires_alignment = 1)     \* no smaller than what aligned loads require (a larger power of two is fine)
  /\ (~IsSpecArch(a.name) => a.alignment >= 8)                              \* emulated: at least the widest element
  /\ (IsSpecArch(a.name) => a.idx >= 1 /\ a.idx <= Len(SpecArchs))         \* listed in all_x86_architectures (the ORDER is ListRecOK's subject)
  \* the inheritance chain: every base is an ancestor in the specification, and the direct parent is among them
  /\ (IsSpecArch(a.name) =>
        /\ \A i \in 1 .. Len(a.bases) : IsSpecArch(a.bases[i]) /\ SpecIdx(a.bases[i]) > SpecIdx(a.name)
        /\ (SpecArchs[SpecIdx(a.name)].parent # "generic" => InList(a.bases, SpecArchs[SpecIdx(a.name)].parent)))
GeomRecOK(g) ==
  /\ g.size * g.tb = RegBytesOf(g.arch)                 \* batch<T,A>::size * sizeof(T) = register width of A
  /\ g.sizeof_reg = RegBytesOf(g.arch)
  /\ g.sizeof_batch = RegBytesOf(g.arch)
  /\ g.bsize = g.size                                   \* batch_bool has the same lane count
  /\ g.is_batch = 1 /\ g.scalar_bytes = g.tb
  /\ g.mask_lanes = g.size
  /\ g.sret_lanes = g.size /\ g.sret_bytes = g.tb
  /\ g.as_int_bytes = g.tb /\ g.as_int_lanes = g.size /\ g.as_uint_bytes = g.tb
FGeomRecOK(g) == g.csize = g.size /\ g.creal_lanes = g.size /\ g.as_float_bytes = g.tb /\ g.as_float_lanes = g.size
                 /\ g.size * g.tb = RegBytesOf(g.arch)
SizedRecOK(s) == s.void = 1 \/ (s.lanes = s.N /\ s.elt_bytes = s.tb)
\* a list record against the architecture records seen so far (archs : name -> record)
ListRecOK(L, archs) ==
  /\ \A i \in 1 .. Len(L.archs) : L.archs[i] \in DOMAIN archs
  /\ L.best = L.archs[1]
  /\ \A i \in 1 .. Len(L.archs) : L.alignment >= archs[L.archs[i]].alignment
  /\ \E i \in 1 .. Len(L.archs) : L.alignment = archs[L.archs[i]].alignment          \* arch_list::alignment() = max
  \* every extension parent appears after the architecture (a kernel inherited from the parent is legal)
  /\ (L.name \in {"all_x86", "supported"} =>
        /\ BestFirst(L.archs)
        /\ \A i \in 1 .. Len(L.archs) : \A j \in 1 .. Len(archs[L.archs[i]].bases) :
              LET b == archs[L.archs[i]].bases[j] IN InList(L.archs, b) => Pos(L.archs, b) > i)
  /\ (L.name = "all_x86" => Len(L.archs) = Len(SpecNames) /\ \A i \in 1 .. Len(SpecNames) : InList(L.archs, SpecNames[i]))     \* every x86 architecture, once
  /\ (L.name = "supported" => \A i \in 1 .. Len(L.archs) : archs[L.archs[i]].supported = 1)
  /\ (L.name = "supported" => \A nm \in DOMAIN archs : (archs[nm].supported = 1 /\ IsSpecArch(nm)) => InList(L.archs, nm))
=============================================================================
