CONSTANTS ArchUniverse = {1, 2, 3, 4, 5}
 MaxLen = 4
SPECIFICATION Spec
INVARIANTS AtMostOneCall CallIsFirstAvailable
PROPERTY Termination
CHECK_DEADLOCK FALSE
