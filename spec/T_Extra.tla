-------------------------------- MODULE T_Extra --------------------------------
(***************************************************************************)
(* Growth of the specification beyond the listed properties: element-wise     *)
(* public entry points that C01..C20 do not mention.  Their meaning is taken    *)
(* from the API documentation (docs/source/api) and the instruction-set         *)
(* manuals, with the latitude those grant:                                      *)
(*   pos(x)         = x (bit pattern)                                            *)
(*   fabs(x)        = x with the sign bit cleared                                 *)
(*   fdim(x, y)     = the positive difference: x - y correctly rounded when        *)
(*                    x > y, +0 when x <= y; unconstrained when an operand is NaN   *)
(*                    (the kernel is fmax(0, x - y), whose NaN behaviour the docs   *)
(*                    leave open)                                                   *)
(*   reciprocal(x)  = "approximate reciprocal": |r x - 1| <= 2^-11 (the bound of     *)
(*                    rcpps, 1.5 * 2^-12; rcp14 and the exact division are tighter)   *)
(*                    for normal x with a normal reciprocal well inside the range;    *)
(*                    +-inf for +-0, +-0 for +-inf, NaN for NaN                        *)
(*   sadd/ssub      = add / sub on floating lanes; isnan/isinf/isfinite of an         *)
(*                    integer lane = false / false / true                               *)
(*   rsqrt(x)       = "approximate reciprocal square root": |r^2 x - 1| <= 2^-10        *)
(*                    for positive normal x; +inf for +0, +0 for +inf, NaN for NaN and   *)
(*                    for negative x                                                     *)
(* A rejection here is an observation outside the listed properties (./check X01   *)
(* is not a registered property check).                                             *)
(***************************************************************************)
EXTENDS Xsimd, Json, IOUtils
VARIABLE l
Log == ndJsonDeserialize(IOEnv.TRACE)
Opt(e, f) == IF f \in DOMAIN e THEN e[f] ELSE NoRow
\* |m 2^e - 1| <= 2^-k  for the exact product m 2^e
NearOne(m, e, k) == CmpScaled(m, e, FromInt(2 ^ k - 1), -k) >= 0 /\ CmpScaled(m, e, FromInt(2 ^ k + 1), -k) <= 0
\* x normal and far enough from the ends of the range for 1/x (1/sqrt x) and the intermediate steps of its refinement to stay normal
MidRange(f, x) == EField(f, x) >= 4 /\ EField(f, x) <= EMax(f) - 4
RecipOK(f, x, r) ==
  IF IsNaN(f, x) THEN IsNaN(f, r)
  ELSE IF IsZeroF(f, x) THEN r = EncInf(f, SignOf(f, x))
  ELSE IF IsInf(f, x) THEN r = EncZero(f, SignOf(f, x))
  ELSE ~MidRange(f, x) \/
       (IsFinite(f, r) /\ ~IsZeroF(f, r) /\ SignOf(f, r) = SignOf(f, x) /\ NearOne(BMul(Sig(f, r), Sig(f, x)), Exp(f, r) + Exp(f, x), 11))
RsqrtOK(f, x, r) ==
  IF IsNaN(f, x) THEN IsNaN(f, r)
  ELSE IF IsZeroF(f, x) THEN IsInf(f, r)                                  \* rsqrt(-0): -inf (IEEE rSqrt) or +inf (1/sqrt(-0) = 1/-0 ...): any infinity
  ELSE IF IsSub(f, x) THEN IsInf(f, r) \/ IsNaN(f, r) \/ ~IsZeroF(f, r)     \* rsqrtps reads a denormal as a zero of its sign; 1/sqrt(x) gives a large value or NaN
  ELSE IF SignOf(f, x) = 1 THEN IsNaN(f, r)
  ELSE IF IsInf(f, x) THEN r = EncZero(f, 0)
  ELSE ~MidRange(f, x) \/
       (IsFinite(f, r) /\ ~IsZeroF(f, r) /\ SignOf(f, r) = 0 /\ NearOne(BMul(BMul(Sig(f, r), Sig(f, r)), Sig(f, x)), 2 * Exp(f, r) + Exp(f, x), 10))
FdimOK(f, x, y, r) ==
  IF IsNaN(f, x) \/ IsNaN(f, y) \/ FSub(f, x, y) = NaNRes THEN TRUE          \* documented as max(0, x - y): inf - inf is NaN, and max with a NaN is left open
  ELSE IF FLt(f, y, x) THEN ResOK(f, FSub(f, x, y), r)
  ELSE IsZeroF(f, r)                                                        \* x <= y: a zero (fmax(0, x - y) may keep either zero when x = y)
\* "saturated" sum of floating lanes: the native batch kernels add (an overflow is +-inf), the scalar overload and emulated<N> clamp an
\* infinite sum to +-max (observation recorded in DESIGN 0.4b); the documentation does not choose, so both are admitted - nothing else is
SatOK(f, s, r) == ResOK(f, s, r) \/ (s # NaNRes /\ IsInf(f, s) /\ r = MaxFinite(f, SignOf(f, s)))
LaneOK(op, t, x, y, r) ==
  LET f == FmtOfT(t) IN
  CASE op = "pos" -> r = x
    [] op = "fabs" -> TypeTab[t].kind = "float" /\ r = FAbs(f, x)
    [] op = "fdim" -> TypeTab[t].kind = "float" /\ FdimOK(f, x, y, r)
    [] op = "sadd" -> TypeTab[t].kind = "float" /\ SatOK(f, FAdd(f, x, y), r)
    [] op = "ssub" -> TypeTab[t].kind = "float" /\ SatOK(f, FSub(f, x, y), r)
    [] op = "reciprocal" -> TypeTab[t].kind = "float" /\ RecipOK(f, x, r)
    [] op = "rsqrt" -> TypeTab[t].kind = "float" /\ RsqrtOK(f, x, r)
    [] OTHER -> FALSE
Bad(e) == {i \in LaneIdx(e.t) : ~LaneOK(e.op, e.t, Lane(e.a, e.t, i), RowOr(Opt(e, "b"), e.t, i), Lane(e.r, e.t, i))}
\* recorded observation (DESIGN 0.4b): on the SSE/AVX architectures rsqrt(batch<double>) is computed through single precision
\* (cvtpd2ps, rsqrtps, cvtps2pd): arguments outside the float32 range give 0 / inf.  Recognised by the operand class only.
OutsideF32(x) == LET ef == EField(F64, x) IN ef < 1023 - 126 \/ ef > 1023 + 127
Known(e, bad) == IF e.op = "rsqrt" /\ e.t = "f64" /\ bad # {} /\ \A i \in bad : OutsideF32(Lane(e.a, e.t, i)) THEN "rsqrt64-float-range" ELSE "-"
RejectLine(e, bad) == "REJECT id=" \o ToString(e.id) \o " k=" \o e.k \o " op=" \o e.op \o " t=" \o e.t \o " lanes=" \o ToString(bad)
                      \o " archs=" \o ToString(e.archs) \o " known=" \o Known(e, bad)
                      \o (IF bad = {} THEN "" ELSE LET i == CHOOSE j \in bad : \A k \in bad : j <= k IN
                            " lane=" \o ToString(i) \o " x=" \o ToString(Lane(e.a, e.t, i)) \o " r=" \o ToString(Lane(e.r, e.t, i)))
Init == /\ l = 1 /\ reg = [i \in 0 .. 3 |-> NoRow] /\ breg = <<>> /\ last = <<>>
        /\ TLCSet(1, 0) /\ TLCSet(2, 0) /\ TLCSet(3, 0) /\ TLCSet(4, 0)
Step ==
  /\ l <= Len(Log)
  /\ LET e == Log[l] IN
     IF e.k = "cmp" /\ e.t \in TypeNames /\ TypeTab[e.t].kind = "int" /\ e.op \in {"isnan", "isinf", "isfinite"} /\ Len(e.r) = NLanes(e.t)
     THEN \* an integer is never NaN, never infinite, always finite
          LET bad == {i \in LaneIdx(e.t) : e.r[i + 1] # (IF e.op = "isfinite" THEN 1 ELSE 0)} IN
          IF bad = {}
          THEN /\ breg' = e.r /\ last' = <<e.op, e.t>> /\ UNCHANGED reg
               /\ TLCSet(1, TLCGet(1) + 1) /\ TLCSet(3, TLCGet(3) + NLanes(e.t))
          ELSE PrintT(RejectLine(e, bad)) /\ TLCSet(2, TLCGet(2) + 1) /\ UNCHANGED xvars
     ELSE IF e.k = "ew" /\ e.t \in TypeNames /\ Len(e.a) = RowBytes /\ Len(e.r) = RowBytes
     THEN LET bad == Bad(e) IN
          IF bad = {}
          THEN /\ reg' = [reg EXCEPT ![0] = e.r, ![1] = e.a] /\ last' = <<e.op, e.t>> /\ UNCHANGED breg
               /\ TLCSet(1, TLCGet(1) + 1) /\ TLCSet(3, TLCGet(3) + NLanes(e.t))
          ELSE PrintT(RejectLine(e, bad)) /\ TLCSet(2, TLCGet(2) + 1) /\ UNCHANGED xvars
     ELSE PrintT(RejectLine(e, {})) /\ TLCSet(2, TLCGet(2) + 1) /\ UNCHANGED xvars
  /\ l' = l + 1 /\ TLCSet(4, l)
Next == Step
Accepted == /\ PrintT("STATS events=" \o ToString(Len(Log)) \o " consumed=" \o ToString(TLCGet(4)) \o " accepted=" \o ToString(TLCGet(1))
                       \o " rejected=" \o ToString(TLCGet(2)) \o " lanes=" \o ToString(TLCGet(3)))
            /\ TLCGet(4) = Len(Log)
=============================================================================
