INIT Init
NEXT Next
POSTCONDITION Accepted
CHECK_DEADLOCK FALSE
