----------------------------- MODULE K_IntKernels -----------------------------
(***************************************************************************)
(* Kernel refinement (properties C01, C07): xsimd's bit-trick emulations      *)
(* transcribed over modelled W-bit primitives and checked by TLC against the   *)
(* definitional lane semantics (IntLane) for EVERY input of the reduced width. *)
(*  K_SatAvg : generic sadd (signed: min/max/select; unsigned: min), ssub,      *)
(*             abs via sign-bit xor/sub, avg (unsigned, signed), avgr           *)
(*             (xsimd_generic_arithmetic.hpp:196-250, xsimd_generic_math.hpp:    *)
(*             45-110) - all 2^16 operand pairs at W = 8                         *)
(*  K_Shift8 : sse2 shifts of 8-bit lanes built from wider shifts and masks      *)
(*             (xsimd_sse2.hpp:269-276, 362-374, 399-402): a 16-bit unit of two   *)
(*             byte lanes, every (lo, hi, count)                                  *)
(*  K_Sra64  : sse2 arithmetic right shift of 64-bit lanes from a logical shift   *)
(*             and a shifted sign mask (xsimd_sse2.hpp:383-391), scaled to W = 8   *)
(***************************************************************************)
EXTENDS Integers, TLC
I == INSTANCE IntLane
W == 8
M == 256
VARIABLES a, ph
\* W-bit primitives on bit patterns 0 .. 255
ADD(x, y) == (x + y) % M
SUB(x, y) == (x - y) % M
ANDb(x, y) == I!AndI(W, x, y)
XORb(x, y) == I!XorI(W, x, y)
SHRL(x, n) == IF n >= W THEN 0 ELSE x \div 2 ^ n
SHL(x, n) == IF n >= W THEN 0 ELSE (x * 2 ^ n) % M
SHRA(x, n) == I!ShrA(W, x, IF n >= W THEN W - 1 ELSE n)
SV(x) == I!ToS(W, x)
MINS(x, y) == IF SV(x) <= SV(y) THEN x ELSE y
MAXS(x, y) == IF SV(x) >= SV(y) THEN x ELSE y
MINU(x, y) == IF x <= y THEN x ELSE y
\* ---- K_SatAvg -----------------------------------------------------------------------------------------------------
SaddS(self, other) == LET mask == SHRA(other, W - 1)                               \* all ones iff other < 0
                          pos == MINS(SUB(127, other), self)
                          ng == MAXS(SUB(128, other), self)
                      IN ADD(other, IF mask # 0 THEN ng ELSE pos)
SaddU(self, other) == ADD(self, MINU(SUB(255, self), other))
\* ssub as repaired (clamp on the side where the difference can leave [min, max], then subtract)
SsubS(self, other) == LET neg == SV(other) < 0
                          posb == MAXS(ADD(128, other), self)
                          negb == MINS(ADD(127, other), self)
                      IN SUB(IF neg THEN negb ELSE posb, other)
SsubU(self, other) == SUB(self, MINU(self, other))
\* the shipped ssub, kept to show what the model says about it: sadd(self, -other)
SsubSShipped(self, other) == SaddS(self, SUB(0, other))
AbsS(x) == LET sign == ANDb(x, 128) IN SUB(XORb(x, IF sign # 0 THEN 255 ELSE 0), IF sign # 0 THEN 255 ELSE 0)   \* bitofsign spreads as a mask for integers
AvgU(x, y) == ADD(ANDb(x, y), SHRL(XORb(x, y), 1))
AvgS(x, y) == LET t == ADD(ANDb(x, y), SHRA(XORb(x, y), 1)) IN ADD(t, ANDb(SHRL(t, W - 1), XORb(x, y)))
AvgrU(x, y) == ADD(AvgU(x, y), SHRL(SHL(XORb(x, y), W - 1), W - 1))
AvgrS(x, y) == ADD(AvgS(x, y), ANDb(XORb(x, y), 1))
\* ---- K_Shift8: unit = hi:lo (16 bits), byte lanes lo and hi ------------------------------------------------------------------
Unit(lo, hi) == lo + 256 * hi
Lo(u) == u % 256
Hi(u) == (u \div 256) % 256
Shl8(lo, hi, n) == LET u == (Unit(lo, hi) * 2 ^ n) % 65536  mk == (255 * 2 ^ n) % 256 IN <<ANDb(Lo(u), mk), ANDb(Hi(u), mk)>>
ShrL8(lo, hi, n) == LET u == Unit(lo, hi) \div 2 ^ n  mk == 255 \div 2 ^ n IN <<ANDb(Lo(u), mk), ANDb(Hi(u), mk)>>
Sra16(u, n) == LET s == IF u >= 32768 THEN u - 65536 ELSE u IN (s \div 2 ^ n) % 65536
ShrA8(lo, hi, n) == LET signmask == ((65280 \div 2 ^ n) % 256)                       \* (0xFF00 >> n) & 0xFF
                        res == Sra16(Unit(lo, hi), n)
                        sel(b, r) == I!OrI(W, ANDb(signmask, IF b >= 128 THEN 255 ELSE 0), ANDb(255 - signmask, r))
                    IN <<sel(lo, Lo(res)), sel(hi, Hi(res))>>
\* ---- K_Sra64 at W = 8: srl(x, n) | (signfill << (W - n)), shifts by >= W give 0 ----------------------------------------------
Sra64K(x, n) == I!OrI(W, SHRL(x, n), SHL(IF x >= 128 THEN 255 ELSE 0, W - n))

Init == a \in 0 .. 15 /\ ph = 0
Next == ph = 0 /\ ph' = 1 /\ a' \in {x \in 0 .. 255 : x % 16 = a}
SatAvgOK ==
  ph = 0 \/ \A y \in 0 .. 255 :
    /\ SaddS(a, y) = I!Sadd(W, TRUE, a, y) /\ SaddU(a, y) = I!Sadd(W, FALSE, a, y)
    /\ SsubS(a, y) = I!Ssub(W, TRUE, a, y) /\ SsubU(a, y) = I!Ssub(W, FALSE, a, y)
    /\ (y # 128 => SsubSShipped(a, y) = I!Ssub(W, TRUE, a, y))                 \* the shipped form is right except for y = MIN ...
    /\ AbsS(a) = I!Abs(W, TRUE, a)
    /\ AvgU(a, y) = I!Avg(W, FALSE, a, y) /\ AvgS(a, y) = I!Avg(W, TRUE, a, y)
    /\ AvgrU(a, y) = I!Avgr(W, FALSE, a, y)
    /\ (I!AvgrConstrained(W, TRUE, a, y) => AvgrS(a, y) = I!Avgr(W, TRUE, a, y))
ShippedSsubBroken == ph = 0 \/ a # 0 \/ SsubSShipped(0, 128) # I!Ssub(W, TRUE, 0, 128)   \* ... where it is wrong (regression of the model)
ShiftOK ==
  ph = 0 \/ \A hi \in 0 .. 255, n \in 0 .. 7 :
    /\ Shl8(a, hi, n) = <<I!Shl(W, a, n), I!Shl(W, hi, n)>>
    /\ ShrL8(a, hi, n) = <<I!ShrL(W, a, n), I!ShrL(W, hi, n)>>
    /\ ShrA8(a, hi, n) = <<I!ShrA(W, a, n), I!ShrA(W, hi, n)>>
    /\ Sra64K(a, n) = I!ShrA(W, a, n)
=============================================================================
