CONSTANT Shipped = FALSE
INIT Init
NEXT Next
INVARIANTS ShufflePatOK ZipRecognised
CHECK_DEADLOCK FALSE
