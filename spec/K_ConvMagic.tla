----------------------------- MODULE K_ConvMagic -----------------------------
(***************************************************************************)
(* Kernel refinement (property C06): the "magic constant" conversions between  *)
(* 64-bit integers and double and between uint32 and float, transcribed over    *)
(* the exact IEEE arithmetic of IEEE.tla and compared with the definitional      *)
(* conversion (IntToFloat: round to nearest even; FloatToIntTrunc).              *)
(*  U64ToF64  xsimd_sse2.hpp:587-597 (sse4_1:59-67, avx2:321-333 are the same    *)
(*            arithmetic with blends): (x>>32 | 2^84) - (2^84+2^52) + (lo | 2^52) *)
(*  I64ToF64  xsimd_sse2.hpp:600-611: (sra(hi,16)<<32 + 3*2^67) - (3*2^67+2^52)   *)
(*            + (low48 | 2^52)                                                     *)
(*  U32ToF32  xsimd_generic_details.hpp:187-200: 65536 * float(hi16) + float(lo16)  *)
(*  F32ToU32  xsimd_generic_details.hpp:204-213: values >= 2^31 go through          *)
(*            trunc(v - 2^31) ^ 2^31                                                *)
(* The domain is not enumerable (2^64); TLC evaluates the kernels on every power   *)
(* of two, its neighbours and the rounding-tie neighbourhoods of every binade      *)
(* (the case analysis of the algorithms is per binade), 64 x 12 values per kernel. *)
(***************************************************************************)
EXTENDS LaneFloat, TLC
VARIABLES k, ph
B(f) == Bias(f)
C84 == Enc(F64, 0, B(F64) + 84, <<>>)
C52 == Enc(F64, 0, B(F64) + 52, <<>>)
C84p52 == Enc(F64, 0, B(F64) + 84, BPow2(20))                 \* 2^84 + 2^52
C3p67 == Enc(F64, 0, B(F64) + 68, BPow2(51))                  \* 3 * 2^67
C3p67p52 == Enc(F64, 0, B(F64) + 68, BAdd(BPow2(51), BPow2(36)))   \* 3 * 2^67 + 2^52
Low32 == <<255, 255, 255, 255, 0, 0, 0, 0>>
Low48 == <<255, 255, 255, 255, 255, 255, 0, 0>>
U64ToF64(x) ==
  LET xH == VOr(VShrL(x, 32), C84)
      xL == VOr(VAnd(Low32, x), VAnd(VNot(Low32), C52))
  IN FAdd(F64, FSub(F64, xH, C84p52), xL)
I64ToF64(x) ==
  LET hi == VShrA(SubSeq(x, 5, 8), 16)                       \* _mm_srai_epi32 on the high dword, low dword masked away
      xH == VAdd(<<0, 0, 0, 0>> \o hi, C3p67)
      xL == VOr(VAnd(Low48, x), VAnd(VNot(Low48), C52))
  IN FAdd(F64, FSub(F64, xH, C3p67p52), xL)
U32ToF32(v) ==
  LET lo == IntToFloat(F32, TRUE, <<v[1], v[2], 0, 0>>)  hi == IntToFloat(F32, TRUE, <<v[3], v[4], 0, 0>>)
      c == Enc(F32, 0, B(F32) + 16, <<>>)
  IN FAdd(F32, FMul(F32, c, hi), lo)
P31 == Enc(F32, 0, B(F32) + 31, <<>>)
F32ToU32(v) ==
  IF FLe(F32, P31, v)
  THEN VXor(FloatToIntTrunc(F32, FSub(F32, v, P31), TRUE, 4), <<0, 0, 0, 128>>)
  ELSE FloatToIntTrunc(F32, v, TRUE, 4)

\* the values tried in binade k of an n-bit integer: 2^k, neighbours, and the tie neighbourhoods at precision p
Vals(kk, nbits, p) ==
  LET base == BPow2(kk)  m == BPow2(nbits)
      half == IF kk >= p THEN BPow2(kk - p) ELSE <<>>           \* half an ulp of the target format in this binade (0 if exact)
      cand == {base, BAdd(base, One), BSub(base, One), BAdd(base, half), BAdd(BAdd(base, half), One), BSub(BAdd(base, half), One),
               BAdd(base, BAdd(half, BAdd(half, half))), BSub(BAdd(base, BAdd(half, BAdd(half, half))), One),
               BSub(BPow2(kk + 1), One), BSub(BPow2(kk + 1), BAdd(half, One)), BAdd(base, BShr(base, 1)), BAdd(base, BShr(BPow2(kk + 1), 3))}
  IN {Fix(c, nbits \div 8) : c \in {c \in cand : BLt(c, m)}}
Init == k \in 0 .. 15 /\ ph = 0
Next == ph = 0 /\ ph' = 1 /\ k' \in {j \in 0 .. 63 : j % 16 = k}
ConvOK ==
  ph = 0 \/
    /\ \A x \in Vals(k, 64, 53) : /\ U64ToF64(x) = IntToFloat(F64, FALSE, x)
                                  /\ I64ToF64(x) = IntToFloat(F64, TRUE, x)
                                  /\ I64ToF64(VNeg(x)) = IntToFloat(F64, TRUE, VNeg(x))
    /\ k < 32 => \A v \in Vals(k, 32, 24) :
                    /\ U32ToF32(v) = IntToFloat(F32, FALSE, v)
                    /\ LET fl == IntToFloat(F32, FALSE, v) IN               \* a float that is a non-negative integer below 2^32
                       TruncFits(F32, fl, FALSE, 4) => F32ToU32(fl) = FloatToIntTrunc(F32, fl, FALSE, 4)
=============================================================================
