------------------------------- MODULE MemModel -------------------------------
(* Design-level model of C04 on a small arena: a 4-byte register of 1- or 2-byte *)
(* lanes over a 12-byte page with guards on both sides; every offset, every       *)
(* 3-step program of stores and loads of token registers.  Invariants: a store     *)
(* changes exactly its range; a load leaves memory unchanged and returns the bytes  *)
(* last stored (store-then-load is the identity); an access whose range meets a     *)
(* guard is never enabled.                                                          *)
EXTENDS Mem
VARIABLES regs, steps, lastst
RegBytes == 4
Tok(k) == [i \in 1 .. RegBytes |-> 16 * k + i]
Init == mem = Fresh /\ regs = <<>> /\ steps = 0 /\ lastst = <<>>
Store(p, k) == /\ steps < 3 /\ StoreBytes(p, Tok(k)) /\ lastst' = <<p, k>> /\ steps' = steps + 1 /\ UNCHANGED regs
Load(p) == /\ steps < 3 /\ InPage(p, RegBytes)
           /\ regs' = [i \in 1 .. RegBytes |-> mem[p + i - 1]] /\ steps' = steps + 1 /\ UNCHANGED <<mem, lastst>>
Next == \E p \in -2 .. PageSize, k \in 1 .. 2 : Store(p, k) \/ Load(p)
NoGuardAccess == \A a \in DOMAIN mem : a \in Addr
FrameOK == lastst = <<>> \/ \A a \in Addr : a \notin Range(lastst[1], RegBytes) => (mem[a] = Canary(a) \/ \E k \in 1 .. 2, q \in Addr : mem[a] \in {Tok(k)[i] : i \in 1 .. RegBytes})
RangeWritten == lastst = <<>> \/ \A i \in 1 .. RegBytes : mem[lastst[1] + i - 1] = Tok(lastst[2])[i]
=============================================================================
