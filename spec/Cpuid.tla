-------------------------------- MODULE Cpuid --------------------------------
(***************************************************************************)
(* Run-time availability of x86 architectures (property C15, first half).    *)
(*                                                                         *)
(* State: cpu   - what the (injected) CPUID/XGETBV source presents           *)
(*        cache - the process-wide result of the first detection (the        *)
(*                function-local static of available_architectures()) or None*)
(*        ret   - value returned by the last available_architectures() call  *)
(* A configuration is [bits, osxsave, x1, x2, x567]: bits is a 20-bit mask    *)
(* over FeatureNames (the CPUID bits the detector reads), x1/x2/x567 are      *)
(* XCR0[1], XCR0[2], XCR0[7:5].  Hardware presents only configurations with   *)
(* x2 => x1, x567 => x2, and XCR0 is readable only with OSXSAVE: 2^20 x 5.    *)
(*                                                                         *)
(* Avail is the property: own feature bit(s) and OS-enabled register state.   *)
(* Shipped is K_Cpuid: the decision table of detail::supported_arch()         *)
(* (xsimd_cpuid.hpp:185-251) transcribed line by line.  TLC checks on the     *)
(* whole space that Shipped => Avail ("only if"), that nothing beyond SSE is  *)
(* available without OSXSAVE, and monotonicity along the extension chain for  *)
(* closed feature sets; the trace specification T_Cpuid checks the same for   *)
(* the flags the real detector returns under each injected configuration.     *)
(***************************************************************************)
EXTENDS Integers, Sequences, TLC

FeatureNames == <<"sse2", "sse3", "ssse3", "sse4_1", "sse4_2", "fma", "avx", "fma4", "avx2", "avxvnni",
                  "f", "cd", "dq", "bw", "er", "pf", "ifma", "vbmi", "vbmi2", "vnni">>
NF == Len(FeatureNames)
FIdx(nm) == CHOOSE i \in 1 .. NF : FeatureNames[i] = nm
\* architecture fields of detail::supported_arch in declaration order (x86 part)
ArchNames == <<"sse2", "sse3", "ssse3", "sse4_1", "sse4_2", "fma3_sse42", "fma4", "avx", "fma3_avx", "avx2", "avxvnni",
               "fma3_avx2", "avx512f", "avx512cd", "avx512dq", "avx512bw", "avx512er", "avx512pf", "avx512ifma",
               "avx512vbmi", "avx512vbmi2", "avx512vnni_bw", "avx512vnni_vbmi2">>
NA == Len(ArchNames)
AIdx(nm) == CHOOSE i \in 1 .. NA : ArchNames[i] = nm
ArchSet == {ArchNames[i] : i \in 1 .. NA}

Has(c, nm) == (c.bits \div 2 ^ (FIdx(nm) - 1)) % 2 = 1

\* the CPUID bit(s) an architecture needs of its own (components of composite architectures included;
\* avx512vnni<avx512bw> is read conservatively as the VNNI bit alone, which is what every reading requires)
OwnBits(A) ==
  CASE A = "sse2" -> {"sse2"} [] A = "sse3" -> {"sse3"} [] A = "ssse3" -> {"ssse3"} [] A = "sse4_1" -> {"sse4_1"}
    [] A = "sse4_2" -> {"sse4_2"} [] A = "fma3_sse42" -> {"fma"} [] A = "fma4" -> {"fma4"} [] A = "avx" -> {"avx"}
    [] A = "fma3_avx" -> {"fma", "avx"} [] A = "avx2" -> {"avx2"} [] A = "avxvnni" -> {"avxvnni"}
    [] A = "fma3_avx2" -> {"fma", "avx2"} [] A = "avx512f" -> {"f"} [] A = "avx512cd" -> {"cd"} [] A = "avx512dq" -> {"dq"}
    [] A = "avx512bw" -> {"bw"} [] A = "avx512er" -> {"er"} [] A = "avx512pf" -> {"pf"} [] A = "avx512ifma" -> {"ifma"}
    [] A = "avx512vbmi" -> {"vbmi"} [] A = "avx512vbmi2" -> {"vbmi2"} [] A = "avx512vnni_bw" -> {"vnni"}
    [] A = "avx512vnni_vbmi2" -> {"vnni", "vbmi2"}
\* which register file the architecture's instructions use
Kind(A) == IF A \in {"sse2", "sse3", "ssse3", "sse4_1", "sse4_2"} THEN "sse"
           ELSE IF A \in {"fma3_sse42", "fma4", "avx", "fma3_avx", "avx2", "avxvnni", "fma3_avx2"} THEN "vex" ELSE "evex"
Parent(A) ==
  CASE A = "sse2" -> "sse2" [] A = "sse3" -> "sse2" [] A = "ssse3" -> "sse3" [] A = "sse4_1" -> "ssse3" [] A = "sse4_2" -> "sse4_1"
    [] A = "fma3_sse42" -> "sse4_2" [] A = "fma4" -> "sse4_2" [] A = "avx" -> "sse4_2" [] A = "fma3_avx" -> "avx"
    [] A = "avx2" -> "avx" [] A = "avxvnni" -> "avx2" [] A = "fma3_avx2" -> "avx2" [] A = "avx512f" -> "avx2"
    [] A = "avx512cd" -> "avx512f" [] A = "avx512dq" -> "avx512cd" [] A = "avx512bw" -> "avx512dq" [] A = "avx512er" -> "avx512cd"
    [] A = "avx512pf" -> "avx512er" [] A = "avx512ifma" -> "avx512bw" [] A = "avx512vbmi" -> "avx512ifma"
    [] A = "avx512vbmi2" -> "avx512vbmi" [] A = "avx512vnni_bw" -> "avx512bw" [] A = "avx512vnni_vbmi2" -> "avx512vbmi2"

SseOs(c) == ~c.osxsave \/ c.x1
AvxOs(c) == c.osxsave /\ c.x1 /\ c.x2
ZmmOs(c) == AvxOs(c) /\ c.x567
OsState(A, c) == CASE Kind(A) = "sse" -> SseOs(c) [] Kind(A) = "vex" -> AvxOs(c) [] Kind(A) = "evex" -> ZmmOs(c)
Avail(A, c) == (\A b \in OwnBits(A) : Has(c, b)) /\ OsState(A, c)

HwPresentable(c) == (c.x2 => c.x1) /\ (c.x567 => c.x2) /\ (~c.osxsave => ~c.x1 /\ ~c.x2 /\ ~c.x567)
Closed(c) == \A A \in ArchSet : (\A b \in OwnBits(A) : Has(c, b)) => (\A b \in OwnBits(Parent(A)) : Has(c, b))

\* ---- K_Cpuid: the shipped decision table -------------------------------------------------------------
B2N(b) == IF b THEN 1 ELSE 0
Shipped(c) ==
  LET sse_os == IF c.osxsave THEN B2N(c.x1) ELSE 1
      avx_os == IF c.osxsave THEN B2N(c.x2) * sse_os ELSE 0                  \* line 195 (after the fix: defaults 0)
      zmm_os == IF c.osxsave THEN B2N(c.x567) * avx_os ELSE 0               \* line 196; reads XCR0[6] only
      g(nm, os) == B2N(Has(c, nm)) * os = 1
      fma3sse == g("fma", avx_os)                                           \* VEX encoded: needs the YMM state
      avx == g("avx", avx_os)   avx2 == g("avx2", avx_os)
      vbmi2 == g("vbmi2", zmm_os)  vnni == g("vnni", zmm_os)
  IN [sse2 |-> g("sse2", sse_os), sse3 |-> g("sse3", sse_os), ssse3 |-> g("ssse3", sse_os), sse4_1 |-> g("sse4_1", sse_os),
      sse4_2 |-> g("sse4_2", sse_os), fma3_sse42 |-> fma3sse, fma4 |-> g("fma4", avx_os), avx |-> avx,
      fma3_avx |-> avx /\ fma3sse, avx2 |-> avx2, avxvnni |-> g("avxvnni", avx_os), fma3_avx2 |-> avx2 /\ fma3sse,
      avx512f |-> g("f", zmm_os), avx512cd |-> g("cd", zmm_os), avx512dq |-> g("dq", zmm_os), avx512bw |-> g("bw", zmm_os),
      avx512er |-> g("er", zmm_os), avx512pf |-> g("pf", zmm_os), avx512ifma |-> g("ifma", zmm_os),
      avx512vbmi |-> g("vbmi", zmm_os), avx512vbmi2 |-> vbmi2, avx512vnni_bw |-> vnni, avx512vnni_vbmi2 |-> vbmi2 /\ vnni]

\* ---- what is required of ANY detector result fl (a function ArchSet -> BOOLEAN) under configuration c --
OnlyIf(c, fl) == \A A \in ArchSet : fl[A] => Avail(A, c)
Monotone(c, fl) == Closed(c) => \A A \in ArchSet : fl[A] => fl[Parent(A)]
NoVexWithoutOsxsave(c, fl) == ~c.osxsave => \A A \in ArchSet : fl[A] => Kind(A) = "sse"
DetectOK(c, fl) == OnlyIf(c, fl) /\ Monotone(c, fl) /\ NoVexWithoutOsxsave(c, fl)
\* informational converse: the detector is not needlessly strict on closed configurations
Complete(c, fl) == Closed(c) => \A A \in ArchSet : Avail(A, c) => fl[A]

\* ---- the machine ---------------------------------------------------------------------------------------
VARIABLES cpu, cache, ret
cvars == <<cpu, cache, ret>>
None == <<>>        \* cache / ret are sequences of length 0 (nothing yet) or 1 (a flag vector): TLC cannot compare a function with a string
OsStates == {[osxsave |-> FALSE, x1 |-> FALSE, x2 |-> FALSE, x567 |-> FALSE]} \cup
            {[osxsave |-> TRUE, x1 |-> a, x2 |-> b, x567 |-> d] : a, b, d \in BOOLEAN}
MkCfg(bits, os) == [bits |-> bits, osxsave |-> os.osxsave, x1 |-> os.x1, x2 |-> os.x2, x567 |-> os.x567]
\* Detect: the first call computes and caches, later calls return the cache whatever the source presents now
DetectWith(fl) ==
  /\ IF cache = None THEN cache' = <<fl>> ELSE (<<fl>> = cache /\ UNCHANGED cache)
  /\ ret' = <<fl>> /\ UNCHANGED cpu
SourceChange(c) == cpu' = c /\ UNCHANGED <<cache, ret>>
\* one harness step = SourceChange(c) followed by a detection (TLC has no action composition, so it is spelled out)
ChangeThenDetect(c, fl) ==
  /\ cpu' = c
  /\ IF cache = None THEN cache' = <<fl>> ELSE (<<fl>> = cache /\ UNCHANGED cache)
  /\ ret' = <<fl>>

\* design-level enumeration: seeds (OS state x low 4 bits) fan out over the remaining 16 bits
CONSTANTS LowBits,     \* number of feature bits enumerated in the initial states
          Quick        \* TRUE: only high parts with at most 2 or at least n-2 bits set (factorised sub-space)
RECURSIVE Pop(_)
Pop(h) == IF h = 0 THEN 0 ELSE (h % 2) + Pop(h \div 2)
HiSet == IF Quick THEN {h \in 0 .. 2 ^ (NF - LowBits) - 1 : Pop(h) <= 2 \/ Pop(h) >= NF - LowBits - 2}
         ELSE 0 .. 2 ^ (NF - LowBits) - 1
VARIABLE ph
Init == /\ ph = 0 /\ cache = None /\ ret = None
        /\ \E os \in {o \in OsStates : HwPresentable(MkCfg(0, o))}, lo \in 0 .. 2 ^ LowBits - 1 : cpu = MkCfg(lo, os)
Next == /\ ph = 0 /\ ph' = 1
        /\ \E hi \in HiSet : cpu' = [cpu EXCEPT !.bits = cpu.bits + hi * 2 ^ LowBits]
        /\ cache' = <<Shipped(cpu')>> /\ ret' = cache'
TableOK == ph = 0 \/ DetectOK(cpu, cache[1])
TableComplete == ph = 0 \/ Complete(cpu, cache[1])
=============================================================================
