INIT Init0
NEXT Step
INVARIANT TraceHeapInv
POSTCONDITION Accepted
CHECK_DEADLOCK FALSE
