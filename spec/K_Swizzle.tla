----------------------------- MODULE K_Swizzle -----------------------------
(***************************************************************************)
(* Kernel refinement (property C05, second wave): the per-ISA decompositions  *)
(* of swizzle, transcribed over modelled x86 primitives, against the         *)
(* definition Perm!Swizzle (out[i] = x[idx[i]]).                               *)
(*                                                                           *)
(*  "avx32"   xsimd_avx.hpp:1436-1522  8 x 32-bit: duplicate both 128-bit     *)
(*            halves, vpermilps with idx % 4 inside each half, blend on        *)
(*            idx >= 4 (dynamic and constant mask share the algorithm)         *)
(*  "avx64"   xsimd_avx.hpp:1460-1556  4 x 64-bit: control -(idx & 1) (only    *)
(*            bit 1 of a vpermilpd control is read), blend on idx >= 2         *)
(*  "sse16"   xsimd_sse2.hpp:1644-1665 8 x 16-bit: pshuflw/pshufhw with the     *)
(*            indices of the low four and of the high four output lanes,        *)
(*            punpck{l,h}qdq, select on idx < 4 (as repaired by 57617a1)        *)
(*  "sse16old" the kernel as it was shipped before 57617a1 (the indices of      *)
(*            output lane i were used in half i \div 4 only): must FAIL         *)
(*  "pshufb"  xsimd_ssse3.hpp:133-140  element size s in {2,4,8}: the byte      *)
(*            control idx * (s * 0x0101..) + 0x..03020100 fed to pshufb          *)
(*  "ssse16"  xsimd_ssse3.hpp:144-151  constant 16-bit mask -> bytes 2V, 2V+1   *)
(*  "avx2_64" xsimd_avx2.hpp:902-907   4 x 64-bit through vpermd with control   *)
(*            idx * (2 * 0x0000000100000001) + {0,1,0,1,...}                    *)
(*  "fold16"  xsimd_avx512f.hpp:2084-2103 32 x 16-bit constant masks made of     *)
(*            pairs (2k, 2k+1): folded to a 16 x 32-bit vpermd; the predicate    *)
(*            is_pair_of_contiguous_indices guards the overload                  *)
(*                                                                           *)
(* TLC enumerates every index vector over the alphabet Alpha(kind) (the      *)
(* thorough configuration uses the full index range for the 8-lane kernels)   *)
(* and checks that the kernel yields the definition on a register of opaque    *)
(* tokens.                                                                     *)
(***************************************************************************)
EXTENDS Perm, TLC
CONSTANTS Kinds, Full          \* Full = TRUE: every index of an 8-lane vector ranges over 0..7
VARIABLES kind, idx
Tok(n) == Mk(n, LAMBDA i : <<"x", i>>)

\* ---- modelled primitives (Intel SDM semantics, lanes numbered from 0) ----
Lo128(x) == SubSeq(x, 1, Len(x) \div 2)
Hi128(x) == SubSeq(x, Len(x) \div 2 + 1, Len(x))
Insert128(x, h, pos) == IF pos = 0 THEN h \o Hi128(x) ELSE Lo128(x) \o h
\* vpermilps: within each group of 4 lanes, lane i takes group lane (c[i] mod 4)
PermilPs(x, c) == Mk(Len(x), LAMBDA i : L(x, 4 * (i \div 4) + (L(c, i) % 4)))
\* vpermilpd: within each pair, lane i takes pair lane "bit 1 of c[i]"
PermilPd(x, c) == Mk(Len(x), LAMBDA i : L(x, 2 * (i \div 2) + ((L(c, i) \div 2) % 2)))
Blend(r0, r1, m) == Mk(Len(r0), LAMBDA i : IF L(m, i) THEN L(r1, i) ELSE L(r0, i))
Sel2(imm, j) == (imm \div (4 ^ j)) % 4                                          \* 2-bit field j of an 8-bit immediate
ModShuffle(w, x, y, z) == (z % 4) * 64 + (y % 4) * 16 + (x % 4) * 4 + (w % 4)  \* detail::mod_shuffle
ShufLo16(x, imm) == Mk(8, LAMBDA i : IF i < 4 THEN L(x, Sel2(imm, i)) ELSE L(x, i))
ShufHi16(x, imm) == Mk(8, LAMBDA i : IF i < 4 THEN L(x, i) ELSE L(x, 4 + Sel2(imm, i - 4)))
UnpackLo64(a, b) == SubSeq(a, 1, 4) \o SubSeq(b, 1, 4)
UnpackHi64(a, b) == SubSeq(a, 5, 8) \o SubSeq(b, 5, 8)
\* pshufb on 16 bytes: control byte with bit 7 set gives zero, else byte (c mod 16)
Pshufb(xb, cb, zero) == Mk(16, LAMBDA k : IF L(cb, k) >= 128 THEN zero ELSE L(xb, L(cb, k) % 16))
\* vpermd / vpermps (8 or 16 lanes): lane i takes lane (c[i] mod n)
Permd(x, c) == Mk(Len(x), LAMBDA i : L(x, L(c, i) % Len(x)))

\* ---- kernels ----
KAvx32(x, v) ==
  LET hi_hi == Insert128(x, Hi128(x), 0)
      low_low == Insert128(x, Lo128(x), 1)
      half == Mk(8, LAMBDA i : L(v, i) % 4)
      r0 == PermilPs(low_low, half)
      r1 == PermilPs(hi_hi, half)
  IN Blend(r0, r1, Mk(8, LAMBDA i : L(v, i) >= 4))
\* -(idx & 1) on a 64-bit lane is 0 or all ones; modulo 4 that is 0 or 3 (bit 1 is what vpermilpd reads)
KAvx64(x, v) ==
  LET hi_hi == Insert128(x, Hi128(x), 0)
      low_low == Insert128(x, Lo128(x), 1)
      half == Mk(4, LAMBDA i : (4 - (L(v, i) % 2)) % 4)
      r0 == PermilPd(low_low, half)
      r1 == PermilPd(hi_hi, half)
  IN Blend(r0, r1, Mk(4, LAMBDA i : L(v, i) >= 2))
KSse16(x, v) ==
  LET m0123 == ModShuffle(L(v, 0), L(v, 1), L(v, 2), L(v, 3))
      m4567 == ModShuffle(L(v, 4), L(v, 5), L(v, 6), L(v, 7))
      from_lo == UnpackLo64(ShufLo16(x, m0123), ShufLo16(x, m4567))
      from_hi == UnpackHi64(ShufHi16(x, m0123), ShufHi16(x, m4567))
  IN Blend(from_hi, from_lo, Mk(8, LAMBDA i : L(v, i) < 4))           \* select(V < 4, from_lo, from_hi)
KSse16Old(x, v) ==
  LET m0123 == ModShuffle(L(v, 0), L(v, 1), L(v, 2), L(v, 3))
      m4567 == ModShuffle(L(v, 4), L(v, 5), L(v, 6), L(v, 7))
      lo == ShufLo16(x, m0123)                                        \* low half permuted by V0..V3, high half untouched
      hi == ShufHi16(x, m4567)
      lo_lo == UnpackLo64(lo, lo)
      hi_hi == UnpackHi64(hi, hi)
  IN Blend(hi_hi, lo_lo, Mk(8, LAMBDA i : L(v, i) < 4))
\* element size s, n = 16 / s lanes; bytes of the register, least significant first
Bytes(x, s) == Mk(16, LAMBDA k : <<L(x, k \div s), k % s>>)
KPshufb(x, v, s) ==
  LET n == 16 \div s
      ctrl == Mk(16, LAMBDA k : (L(v, k \div s) * s + (k % s)) % 256)    \* idx * comb + pikes, byte k (no carry for idx < 256 / s)
      ob == Pshufb(Bytes(x, s), ctrl, <<"zero">>)
  IN Mk(n, LAMBDA i : L(ob, i * s))                                      \* byte 0 of output element i identifies it ...
KPshufbWhole(x, v, s) ==                                                 \* ... and every byte j of element i must be byte j of the source
  LET ctrl == Mk(16, LAMBDA k : (L(v, k \div s) * s + (k % s)) % 256)
      ob == Pshufb(Bytes(x, s), ctrl, <<"zero">>)
  IN \A k \in 0 .. 15 : L(ob, k) = <<L(x, L(v, k \div s)), k % s>>
KSsse16Whole(x, v) ==
  LET ctrl == Mk(16, LAMBDA k : (2 * L(v, k \div 2) + (k % 2)) % 256)
      ob == Pshufb(Bytes(x, 2), ctrl, <<"zero">>)
  IN \A k \in 0 .. 15 : L(ob, k) = <<L(x, L(v, k \div 2)), k % 2>>
\* 4 x 64-bit seen as 8 x 32-bit halves <<lane, half>>
KAvx2_64Whole(x, v) ==
  LET x32 == Mk(8, LAMBDA k : <<L(x, k \div 2), k % 2>>)
      ctrl == Mk(8, LAMBDA k : L(v, k \div 2) * 2 + (k % 2))              \* (idx * 0x0000000200000002) as u32 pairs + {0,1}
      o32 == Permd(x32, ctrl)
  IN \A k \in 0 .. 7 : L(o32, k) = <<L(x, L(v, k \div 2)), k % 2>>
\* avx512f 16-bit constant masks: the overload exists only for pairs of contiguous indices
RECURSIVE IsPairs(_, _)
IsPairs(v, i) == IF i > Len(v) THEN TRUE ELSE v[i] % 2 = 0 /\ v[i] + 1 = v[i + 1] /\ IsPairs(v, i + 2)
KFold16Whole(x, v) ==
  LET n == Len(x)
      x32 == Mk(n \div 2, LAMBDA k : <<L(x, 2 * k), L(x, 2 * k + 1)>>)
      m32 == Mk(n \div 2, LAMBDA k : L(v, 2 * k) \div 2)
      o32 == Permd(x32, m32)
  IN \A i \in 0 .. n - 1 : L(o32, i \div 2)[(i % 2) + 1] = L(x, L(v, i))

Lanes(k) == CASE k \in {"avx32", "sse16", "sse16old", "ssse16", "pshufb2"} -> 8
              [] k \in {"avx64", "pshufb4", "avx2_64"} -> 4
              [] k = "pshufb8" -> 2
              [] k = "fold16" -> 6          \* reduced width: 6 x 16-bit folded to 3 x 32-bit (the algorithm is width-generic)
Alpha(k) == IF Lanes(k) = 8 /\ ~Full /\ k # "fold16" THEN {0, 3, 4, 7} ELSE 0 .. Lanes(k) - 1
Init == kind \in Kinds /\ idx = <<>>
Next == idx = <<>> /\ idx' \in [1 .. Lanes(kind) -> Alpha(kind)] /\ UNCHANGED kind
vars == <<kind, idx>>
KernelOK(k, v) ==
  LET n == Lanes(k)  x == Tok(n) IN
  CASE k = "avx32" -> KAvx32(x, v) = Swizzle(x, v)
    [] k = "avx64" -> KAvx64(x, v) = Swizzle(x, v)
    [] k = "sse16" -> KSse16(x, v) = Swizzle(x, v)
    [] k = "sse16old" -> KSse16Old(x, v) = Swizzle(x, v)
    [] k = "pshufb2" -> KPshufbWhole(x, v, 2)
    [] k = "pshufb4" -> KPshufbWhole(x, v, 4)
    [] k = "pshufb8" -> KPshufbWhole(x, v, 8)
    [] k = "ssse16" -> KSsse16Whole(x, v)
    [] k = "avx2_64" -> KAvx2_64Whole(x, v)
    [] k = "fold16" -> IsPairs(v, 1) => KFold16Whole(x, v)
SwizzleKernelsOK == idx = <<>> \/ KernelOK(kind, idx)
\* the guard of the folded overload is exactly what the fold needs: an accepted mask never loses a lane, and
\* a mask of pairs that the guard refuses does not exist (no missed optimisation is not a defect; recorded for the reader)
=============================================================================
