CONSTANTS LowBits = 4
 Quick = FALSE
INIT Init
NEXT Next
INVARIANTS TableOK TableComplete
CHECK_DEADLOCK FALSE
