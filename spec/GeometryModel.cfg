INIT Init
NEXT Next
INVARIANT Inv
CHECK_DEADLOCK FALSE
