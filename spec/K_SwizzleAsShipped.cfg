CONSTANT Full = FALSE
CONSTANT Kinds = {"sse16old"}
INIT Init
NEXT Next
INVARIANT SwizzleKernelsOK
CHECK_DEADLOCK FALSE
