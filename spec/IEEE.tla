-------------------------------- MODULE IEEE --------------------------------
(***************************************************************************)
(* IEEE-754 binary interchange formats on digit sequences.  A format is a    *)
(* record [E, M] (exponent bits, fraction bits); a datum is a little-endian  *)
(* sequence of (1+E+M)/8 digits.  This module holds classification, exact     *)
(* decoding (sign, significand : BigNat, exponent : Int), round-to-nearest-   *)
(* even encoding of an exact dyadic value, the arithmetic built on it and the *)
(* comparison predicates.  Self-check: IEEECheck.tla compares every operation *)
(* on the mini-formats (3,2) and (4,3) - padded to one byte - with a          *)
(* declarative "nearest representable value" definition on scaled integers.   *)
(***************************************************************************)
EXTENDS BigNat

F32 == [E |-> 8, M |-> 23]
F64 == [E |-> 11, M |-> 52]
NBytes(f) == (1 + f.E + f.M + 7) \div 8        \* formats narrower than their storage keep the unused top bits zero
Bias(f) == 2 ^ (f.E - 1) - 1
EMax(f) == 2 ^ f.E - 1                       \* exponent field of inf/NaN
Prec(f) == f.M + 1
EMin(f) == 1 - Bias(f) - f.M                 \* exponent of the least significant bit of a subnormal (and of the smallest normals)

SignOf(f, x) == Bit(x, f.E + f.M)
Body(f, x) == IF SignOf(f, x) = 1 THEN Fix(BSub(x, BPow2(f.E + f.M)), NBytes(f)) ELSE x     \* sign bit cleared
EField(f, x) == ToInt(BShr(Body(f, x), f.M))
MField(f, x) == LET b == Body(f, x) IN Fix(BSub(b, BShl(FromInt(EField(f, x)), f.M)), NBytes(f))

IsNaN(f, x)  == EField(f, x) = EMax(f) /\ ~IsZero(MField(f, x))
IsInf(f, x)  == EField(f, x) = EMax(f) /\ IsZero(MField(f, x))
IsZeroF(f, x) == IsZero(Body(f, x))
IsSub(f, x)  == EField(f, x) = 0 /\ ~IsZero(MField(f, x))
IsFinite(f, x) == EField(f, x) # EMax(f)
Class(f, x) == IF IsNaN(f, x) THEN "nan" ELSE IF IsInf(f, x) THEN "inf" ELSE IF IsZeroF(f, x) THEN "zero"
               ELSE IF IsSub(f, x) THEN "sub" ELSE "normal"

\* ---- encoding ------------------------------------------------------------------------------------------
Enc(f, s, ef, mf) == Fix(BAdd(BAdd(mf, BShl(FromInt(ef), f.M)), IF s = 1 THEN BPow2(f.E + f.M) ELSE <<>>), NBytes(f))
EncZero(f, s) == Enc(f, s, 0, <<>>)
EncInf(f, s)  == Enc(f, s, EMax(f), <<>>)
MaxFinite(f, s) == Enc(f, s, EMax(f) - 1, BSub(BPow2(f.M), One))
QNaN(f) == Enc(f, 0, EMax(f), BPow2(f.M - 1))
FlipSign(f, x) == IF SignOf(f, x) = 1 THEN Body(f, x) ELSE Fix(BAdd(x, BPow2(f.E + f.M)), NBytes(f))
WithSign(f, x, s) == IF SignOf(f, x) = s THEN x ELSE FlipSign(f, x)

\* exact value of a finite datum: (-1)^s * m * 2^e  (m a BigNat, e an integer)
Sig(f, x) == IF EField(f, x) = 0 THEN Norm(MField(f, x)) ELSE Norm(BAdd(MField(f, x), BPow2(f.M)))
Exp(f, x) == IF EField(f, x) = 0 THEN EMin(f) ELSE EField(f, x) - Bias(f) - f.M

\* one-pass decoding (TLC caches LET-bound values, so operators decode each operand once):
\*   [s, ef, cls, m, e]: sign, exponent field, class, significand and exponent of the lsb (value = (-1)^s * m * 2^e when finite)
Dec(f, x) ==
  LET s  == SignOf(f, x)
      b  == IF s = 1 THEN Fix(BSub(x, BPow2(f.E + f.M)), NBytes(f)) ELSE x
      ef == ToInt(BShr(b, f.M))
      mf == Norm(BSub(b, BShl(FromInt(ef), f.M)))
  IN [s |-> s, ef |-> ef, body |-> b,
      cls |-> IF ef = EMax(f) THEN (IF mf = <<>> THEN "inf" ELSE "nan") ELSE IF ef = 0 THEN (IF mf = <<>> THEN "zero" ELSE "sub") ELSE "normal",
      m |-> IF ef = 0 THEN mf ELSE Norm(BAdd(mf, BPow2(f.M))),
      e |-> IF ef = 0 THEN EMin(f) ELSE ef - Bias(f) - f.M]

\* ---- rounding an exact dyadic value (-1)^s * m * 2^e (+ sticky: a non-zero amount below m was already discarded)
\* to nearest, ties to even; overflow to infinity; gradual underflow.
Round(f, s, m, e, sticky) ==
  IF IsZero(m) /\ ~sticky THEN EncZero(f, s)
  ELSE
  LET p     == Prec(f)
      emin  == EMin(f)
      drop0 == BitLen(m) - p
      drop  == IF e + drop0 < emin THEN emin - e ELSE drop0       \* bits to discard so that the lsb exponent is >= emin
  IN IF drop <= 0
     THEN LET mm == Norm(BShl(m, -drop))  ee == e + drop IN          \* exact unless sticky
          \* (sticky with drop <= 0 happens only for values with at least p+2 significant bits kept: never here)
          IF BitLen(mm) = p
          THEN IF ee + f.M + Bias(f) >= EMax(f) THEN EncInf(f, s)
               ELSE Enc(f, s, ee + f.M + Bias(f), BSub(mm, BPow2(f.M)))
          ELSE Enc(f, s, 0, mm)                                     \* subnormal (ee = emin)
     ELSE LET q    == Norm(BShr(m, drop))
              half == Bit(m, drop - 1)
              rest == LowBitsNZ(m, drop - 1) \/ sticky
              up   == half = 1 /\ (rest \/ Bit(q, 0) = 1)
              q2   == IF up THEN Norm(BAdd(q, One)) ELSE q
              ov   == BitLen(q2) > p
              q3   == IF ov THEN Norm(BShr(q2, 1)) ELSE q2
              e3   == IF ov THEN e + drop + 1 ELSE e + drop
          IN IF IsZero(q3) THEN EncZero(f, s)
             ELSE IF BitLen(q3) = p
             THEN IF e3 + f.M + Bias(f) >= EMax(f) THEN EncInf(f, s)
                  ELSE Enc(f, s, e3 + f.M + Bias(f), BSub(q3, BPow2(f.M)))
             ELSE Enc(f, s, 0, q3)

\* a NaN result may be any NaN: arithmetic returns the marker NaNRes, ResOK accepts every NaN for it
NaNRes == <<-1>>
ResOK(f, expected, got) == IF expected = NaNRes THEN IsNaN(f, got) ELSE expected = got

\* exact sum of two finite non-zero values given as (s, m, e): result [s, m, e, sticky, zero] for a format of precision p.
\* When one operand lies entirely below the last bit that can influence rounding it is replaced by a sticky bit (this keeps
\* the digit sequences short: operands 2000 binades apart would otherwise be aligned exactly); otherwise the sum is exact.
AddExactP(p, s1, m1, e1, s2, m2, e2) ==
  LET t1 == e1 + BitLen(m1)  t2 == e2 + BitLen(m2)
      big1 == t1 >= t2
      sb == IF big1 THEN s1 ELSE s2   mb == IF big1 THEN m1 ELSE m2   eb == IF big1 THEN e1 ELSE e2
      ss == IF big1 THEN s2 ELSE s1   ms == IF big1 THEN m2 ELSE m1   es == IF big1 THEN e2 ELSE e1
      g == IF p + 2 - BitLen(mb) > 3 THEN p + 2 - BitLen(mb) ELSE 3
  IN IF es + BitLen(ms) <= eb - g
     THEN \* 0 < small < one unit of (mb << g): the sum lies strictly between two consecutive integers at that scale
          IF sb = ss THEN [s |-> sb, m |-> Norm(BShl(mb, g)), e |-> eb - g, sticky |-> TRUE, zero |-> FALSE]
          ELSE [s |-> sb, m |-> Norm(BSub(BShl(mb, g), One)), e |-> eb - g, sticky |-> TRUE, zero |-> FALSE]
     ELSE LET e == IF e1 <= e2 THEN e1 ELSE e2
              a == Norm(BShl(m1, e1 - e))  b == Norm(BShl(m2, e2 - e))
          IN IF s1 = s2 THEN [s |-> s1, m |-> Norm(BAdd(a, b)), e |-> e, sticky |-> FALSE, zero |-> FALSE]
             ELSE IF BLt(b, a) THEN [s |-> s1, m |-> Norm(BSub(a, b)), e |-> e, sticky |-> FALSE, zero |-> FALSE]
             ELSE IF BLt(a, b) THEN [s |-> s2, m |-> Norm(BSub(b, a)), e |-> e, sticky |-> FALSE, zero |-> FALSE]
             ELSE [s |-> 0, m |-> <<>>, e |-> e, sticky |-> FALSE, zero |-> TRUE]     \* exact cancellation: +0 under round-to-nearest

FAddD(f, a, b, x, y) ==          \* x = Dec(f, a), y = Dec(f, b)
  IF x.cls = "nan" \/ y.cls = "nan" THEN NaNRes
  ELSE IF x.cls = "inf" THEN (IF y.cls = "inf" /\ x.s # y.s THEN NaNRes ELSE a)
  ELSE IF y.cls = "inf" THEN b
  ELSE IF x.cls = "zero" /\ y.cls = "zero" THEN (IF x.s = y.s THEN a ELSE EncZero(f, 0))
  ELSE IF x.cls = "zero" THEN b
  ELSE IF y.cls = "zero" THEN a
  ELSE LET r == AddExactP(Prec(f), x.s, x.m, x.e, y.s, y.m, y.e)
       IN IF r.zero THEN EncZero(f, 0) ELSE Round(f, r.s, r.m, r.e, r.sticky)
FAdd(f, a, b) == FAddD(f, a, b, Dec(f, a), Dec(f, b))
FSub(f, a, b) == LET y == Dec(f, b) IN IF y.cls = "nan" THEN NaNRes ELSE LET nb == FlipSign(f, b) IN FAddD(f, a, nb, Dec(f, a), [y EXCEPT !.s = 1 - y.s])
FMulD(f, x, y) ==
  LET s == (x.s + y.s) % 2 IN
  IF x.cls = "nan" \/ y.cls = "nan" THEN NaNRes
  ELSE IF x.cls = "inf" \/ y.cls = "inf" THEN (IF x.cls = "zero" \/ y.cls = "zero" THEN NaNRes ELSE EncInf(f, s))
  ELSE IF x.cls = "zero" \/ y.cls = "zero" THEN EncZero(f, s)
  ELSE Round(f, s, BMul(x.m, y.m), x.e + y.e, FALSE)
FMul(f, a, b) == FMulD(f, Dec(f, a), Dec(f, b))
\* fused multiply-add: a*b + c with a single rounding
FFmaD(f, c, x, y, z) ==
  LET sp == (x.s + y.s) % 2 IN
  IF x.cls = "nan" \/ y.cls = "nan" \/ z.cls = "nan" THEN NaNRes
  ELSE IF x.cls = "inf" \/ y.cls = "inf"
       THEN (IF x.cls = "zero" \/ y.cls = "zero" THEN NaNRes
             ELSE IF z.cls = "inf" /\ z.s # sp THEN NaNRes ELSE EncInf(f, sp))
  ELSE IF z.cls = "inf" THEN c
  ELSE IF x.cls = "zero" \/ y.cls = "zero"
       THEN (IF z.cls = "zero" THEN (IF z.s = sp THEN c ELSE EncZero(f, 0)) ELSE c)
  ELSE IF z.cls = "zero" THEN Round(f, sp, BMul(x.m, y.m), x.e + y.e, FALSE)
  ELSE LET r == AddExactP(Prec(f), sp, Norm(BMul(x.m, y.m)), x.e + y.e, z.s, z.m, z.e)
       IN IF r.zero THEN EncZero(f, 0) ELSE Round(f, r.s, r.m, r.e, r.sticky)
FFma(f, a, b, c) == FFmaD(f, c, Dec(f, a), Dec(f, b), Dec(f, c))
\* multiply then add, two roundings
FMulAdd(f, a, b, c) == LET t == FMul(f, a, b) IN IF t = NaNRes THEN NaNRes ELSE FAdd(f, t, c)
\* latitude of C02 for the fma family: fused or multiply-then-add
FmaOK(f, a, b, c, r) ==
  LET x == Dec(f, a)  y == Dec(f, b)  z == Dec(f, c) IN
  \/ ResOK(f, FFmaD(f, c, x, y, z), r)
  \/ LET t == FMulD(f, x, y) IN ResOK(f, IF t = NaNRes THEN NaNRes ELSE FAddD(f, t, c, Dec(f, t), z), r)

\* ---- division and square root BY CHARACTERISATION ----------------------------------------------------
\* r is the correctly rounded value of the exact positive real X (given by the predicate LeX(m, e): m*2^e <= X, and
\* LtX(m, e): m*2^e < X) iff  pred-midpoint <= X <= succ-midpoint with the tie-to-even side conditions.
\* Midpoints of a finite positive datum r with significand mr and exponent er:
\*   upper = (2*mr + 1) * 2^(er-1);  lower = (2*mr - 1) * 2^(er-1), except at a binade boundary (mr = 2^M, er > EMin)
\*   where the lower neighbour is half an ulp closer: lower = (4*mr - 1) * 2^(er-2).
IsEvenSig(f, r) == Bit(MField(f, r), 0) = 0
\* X in the rounding interval of the finite positive datum r.  cmp(m, e) \in {-1,0,1} compares m*2^e with X.
InRoundInterval(f, r, cmp(_, _)) ==
  LET dr == Dec(f, r)  mr == dr.m  er == dr.e
      even == Bit(mr, 0) = 0
      boundary == mr = Norm(BPow2(f.M)) /\ dr.ef > 1
      up == cmp(BAdd(BShl(mr, 1), One), er - 1)                    \* (2mr+1)*2^(er-1) vs X
      lo == IF boundary THEN cmp(BSub(BShl(mr, 2), One), er - 2) ELSE cmp(BSub(BShl(mr, 1), One), er - 1)
      isMax == r = MaxFinite(f, 0)
  IN /\ (IF IsZero(mr) THEN TRUE ELSE (lo < 0 \/ (lo = 0 /\ even)))      \* X above the lower midpoint (or on it, r even)
     /\ (up > 0 \/ (up = 0 /\ even /\ ~isMax))                            \* X below the upper midpoint (or on it, r even)
\* X rounds to +inf iff X >= MAX + ulp/2
RoundsToInf(f, cmp(_, _)) == LET mx == MaxFinite(f, 0) IN cmp(BAdd(BShl(Sig(f, mx), 1), One), Exp(f, mx) - 1) <= 0
\* compare m*2^e with the exact quotient A/B (A = ma*2^ea, B = mb*2^eb, B > 0): sign of m*mb*2^(e+eb) - ma*2^ea
CmpScaled(m1, e1, m2, e2) == LET e == IF e1 <= e2 THEN e1 ELSE e2 IN BCmp(BShl(m1, e1 - e), BShl(m2, e2 - e))
FDivOK(f, a, b, r) ==
  LET x == Dec(f, a)  y == Dec(f, b)  q == Dec(f, r)  s == (x.s + y.s) % 2 IN
  IF x.cls = "nan" \/ y.cls = "nan" THEN q.cls = "nan"
  ELSE IF x.cls = "inf" THEN (IF y.cls = "inf" THEN q.cls = "nan" ELSE r = EncInf(f, s))
  ELSE IF y.cls = "inf" THEN r = EncZero(f, s)
  ELSE IF y.cls = "zero" THEN (IF x.cls = "zero" THEN q.cls = "nan" ELSE r = EncInf(f, s))
  ELSE IF x.cls = "zero" THEN r = EncZero(f, s)
  ELSE /\ q.cls # "nan" /\ q.s = s
       /\ LET cmp(m, e) == CmpScaled(BMul(m, y.m), e + y.e, x.m, x.e)
          IN IF q.cls = "inf" THEN RoundsToInf(f, cmp) ELSE InRoundInterval(f, q.body, cmp)
\* sqrt: compare m*2^e with sqrt(A): sign of m^2*2^(2e) - ma*2^ea
FSqrtOK(f, a, r) ==
  LET x == Dec(f, a)  q == Dec(f, r) IN
  IF x.cls = "nan" THEN q.cls = "nan"
  ELSE IF x.cls = "zero" THEN r = a
  ELSE IF x.s = 1 THEN q.cls = "nan"
  ELSE IF x.cls = "inf" THEN r = a
  ELSE /\ q.cls \in {"zero", "sub", "normal"} /\ q.s = 0
       /\ LET cmp(m, e) == CmpScaled(BMul(m, m), 2 * e, x.m, x.e)
          IN InRoundInterval(f, r, cmp)

\* ---- sign-bit operations ---------------------------------------------------------------------------------
FNeg(f, x) == FlipSign(f, x)
FAbs(f, x) == Body(f, x)
FCopySign(f, x, y) == WithSign(f, x, SignOf(f, y))
BitOfSign(f, x) == IF SignOf(f, x) = 1 THEN Fix(BPow2(f.E + f.M), NBytes(f)) ELSE ZeroN(NBytes(f))

\* ---- comparisons (C03): IEEE order, NaN unordered, -0 = +0 ---------------------------------
FEq(f, x, y) == LET a == Dec(f, x)  b == Dec(f, y) IN a.cls # "nan" /\ b.cls # "nan" /\ (x = y \/ (a.cls = "zero" /\ b.cls = "zero"))
FLt(f, x, y) ==
  LET a == Dec(f, x)  b == Dec(f, y) IN
  /\ a.cls # "nan" /\ b.cls # "nan"
  /\ ~(a.cls = "zero" /\ b.cls = "zero")
  /\ IF a.s # b.s THEN a.s = 1
     ELSE IF a.s = 0 THEN BLt(a.body, b.body) ELSE BLt(b.body, a.body)
FLe(f, x, y) == FLt(f, x, y) \/ FEq(f, x, y)
FNe(f, x, y) == ~FEq(f, x, y)
\* min/max: when neither operand is NaN the result is one of the operands and numerically <= / >= both
FMinOK(f, x, y, r) == (IsNaN(f, x) \/ IsNaN(f, y)) \/ ((r = x \/ r = y) /\ FLe(f, r, x) /\ FLe(f, r, y))
FMaxOK(f, x, y, r) == (IsNaN(f, x) \/ IsNaN(f, y)) \/ ((r = x \/ r = y) /\ FLe(f, x, r) /\ FLe(f, y, r))

\* ---- integral values ----------------------------------------------------------------------------------------
\* is the finite value an integer?  (exponent of the lsb >= 0, or the low bits are zero)
\* integer part (truncated) of |x| as a BigNat, and whether a fraction was discarded
IntPart(f, x) == IF Exp(f, x) >= 0 THEN Norm(BShl(Sig(f, x), Exp(f, x))) ELSE Norm(BShr(Sig(f, x), -Exp(f, x)))
HasFrac(f, x) == Exp(f, x) < 0 /\ LowBitsNZ(Sig(f, x), -Exp(f, x))
\* fraction compared with one half: -1, 0, 1
FracVsHalf(f, x) == LET k == -Exp(f, x) IN
                    IF k <= 0 THEN -1
                    ELSE IF Bit(Sig(f, x), k - 1) = 0 THEN -1
                    ELSE IF LowBitsNZ(Sig(f, x), k - 1) THEN 1 ELSE 0
IsFlint(f, x) == IsFinite(f, x) /\ ~HasFrac(f, x)
IsEven(f, x) == IsFlint(f, x) /\ (IsZeroF(f, x) \/ Bit(IntPart(f, x), 0) = 0)
IsOdd(f, x) == IsFlint(f, x) /\ ~IsZeroF(f, x) /\ Bit(IntPart(f, x), 0) = 1
\* integer n >= 0 with sign s as a datum (exact when representable, else rounded to nearest even)
FromNatF(f, s, n) == Round(f, s, n, 0, FALSE)
\* rounding to an integral value; modes "up" "down" "zero" "away" (halves away from zero) "even" (halves to even)
RoundInt(f, x, mode) ==
  IF IsNaN(f, x) THEN NaNRes
  ELSE IF IsInf(f, x) \/ IsZeroF(f, x) \/ ~HasFrac(f, x) THEN x
  ELSE LET s == SignOf(f, x)  ip == IntPart(f, x)  h == FracVsHalf(f, x)
           bump == CASE mode = "zero" -> FALSE
                     [] mode = "up"   -> s = 0
                     [] mode = "down" -> s = 1
                     [] mode = "away" -> h >= 0
                     [] mode = "even" -> h > 0 \/ (h = 0 /\ Bit(ip, 0) = 1)
       IN FromNatF(f, s, IF bump THEN BAdd(ip, One) ELSE ip)
\* the results are compared as numbers (the sign of a zero result is unspecified)
SameNumber(f, expected, got) == IF expected = NaNRes THEN IsNaN(f, got)
                                ELSE expected = got \/ (IsZeroF(f, expected) /\ IsZeroF(f, got))

\* ---- conversions (C06) -------------------------------------------------------------------------------------
\* integer lane (n digits, signedness S) -> float, round to nearest even
IntMag(S, x) == IF S /\ x[Len(x)] >= 128 THEN Norm(BSub(BPow2(8 * Len(x)), x)) ELSE Norm(x)
IntNeg(S, x) == S /\ x[Len(x)] >= 128
IntToFloat(f, S, x) == IF IsZero(x) THEN EncZero(f, 0) ELSE Round(f, IF IntNeg(S, x) THEN 1 ELSE 0, IntMag(S, x), 0, FALSE)
\* float -> integer lane of nb digits, truncation toward zero; defined only when the truncated value fits
TruncFits(f, x, S, nb) == /\ IsFinite(f, x)
                          /\ LET ip == IntPart(f, x) IN
                             IF SignOf(f, x) = 0 THEN BitLen(ip) <= (IF S THEN 8 * nb - 1 ELSE 8 * nb)
                             ELSE IF S THEN BLe(ip, BPow2(8 * nb - 1)) ELSE IsZero(ip)
FloatToIntTrunc(f, x, S, nb) == LET ip == IntPart(f, x) IN
                                IF SignOf(f, x) = 0 \/ IsZero(ip) THEN Fix(ip, nb) ELSE Fix(BSub(BPow2(8 * nb), ip), nb)
\* nearest integer (ties to even) as an integer lane
NearFits(f, x, S, nb) == /\ IsFinite(f, x)
                         /\ LET r == RoundInt(f, x, "even") IN TruncFits(f, r, S, nb)
FloatToIntNear(f, x, S, nb) == FloatToIntTrunc(f, RoundInt(f, x, "even"), S, nb)
\* float <-> float
FloatToFloat(f, g, x) == IF IsNaN(f, x) THEN NaNRes ELSE IF IsInf(f, x) THEN EncInf(g, SignOf(f, x))
                         ELSE IF IsZeroF(f, x) THEN EncZero(g, SignOf(f, x)) ELSE Round(g, SignOf(f, x), Sig(f, x), Exp(f, x), FALSE)

\* ---- frexp / ldexp / nextafter ------------------------------------------------------------------------------
\* next datum above / below in the ordered line of finite values and infinities
Succ(f, x) == IF IsZeroF(f, x) THEN Enc(f, 0, 0, One)
              ELSE IF SignOf(f, x) = 0 THEN Fix(BAdd(x, One), NBytes(f)) ELSE (IF Body(f, x) = Fix(One, NBytes(f)) THEN EncZero(f, 1) ELSE Fix(BSub(x, One), NBytes(f)))
Pred(f, x) == FlipSign(f, Succ(f, FlipSign(f, x)))
NextAfter(f, x, y) == IF IsNaN(f, x) \/ IsNaN(f, y) THEN NaNRes
                      ELSE IF FEq(f, x, y) THEN y
                      ELSE IF FLt(f, x, y) THEN Succ(f, x) ELSE Pred(f, x)
NextAfterOK(f, x, y, r) == ResOK(f, NextAfter(f, x, y), r)          \* nextafter(x, y) = y when x = y, in particular nextafter(+0, -0) = -0 (ISO C 7.12.11.3)
\* x = m * 2^k with 0.5 <= |m| < 1: <<m datum, k>> for finite non-zero x
FrexpMant(f, x) == Round(f, SignOf(f, x), Sig(f, x), -BitLen(Sig(f, x)), FALSE)
FrexpExp(f, x) == Exp(f, x) + BitLen(Sig(f, x))
\* x * 2^k correctly rounded
Ldexp(f, x, k) == IF IsNaN(f, x) THEN NaNRes ELSE IF IsInf(f, x) \/ IsZeroF(f, x) THEN x ELSE Round(f, SignOf(f, x), Sig(f, x), Exp(f, x) + k, FALSE)

\* ---- distances ------------------------------------------------------------------------------------------
\* position of a non-NaN datum on the ordered line (offset so that it is a natural): -inf .. -0 | +0 .. +inf
Ordinal(f, x) == IF SignOf(f, x) = 0 THEN BAdd(BPow2(f.E + f.M), Body(f, x)) ELSE BSub(BPow2(f.E + f.M), Body(f, x))
OrdinalDistance(f, x, y) == LET a == Ordinal(f, x)  b == Ordinal(f, y) IN IF BLe(a, b) THEN Norm(BSub(b, a)) ELSE Norm(BSub(a, b))
=============================================================================
