-------------------------------- MODULE IEEE --------------------------------
(***************************************************************************)
(* IEEE-754 binary interchange formats on digit sequences.  A format is a    *)
(* record [E, M] (exponent bits, fraction bits); a datum is a little-endian  *)
(* sequence of (1+E+M)/8 digits.  This module holds classification, exact     *)
(* decoding (sign, significand : BigNat, exponent : Int), round-to-nearest-   *)
(* even encoding of an exact dyadic value, the arithmetic built on it and the *)
(* comparison predicates.  Self-check: IEEECheck.tla compares every operation *)
(* on the mini-formats (3,2) and (4,3) - padded to one byte - with a          *)
(* declarative "nearest representable value" definition on scaled integers.   *)
(***************************************************************************)
EXTENDS BigNat

F32 == [E |-> 8, M |-> 23]
F64 == [E |-> 11, M |-> 52]
NBytes(f) == (1 + f.E + f.M) \div 8
Bias(f) == 2 ^ (f.E - 1) - 1
EMax(f) == 2 ^ f.E - 1                       \* exponent field of inf/NaN

SignOf(f, x) == Bit(x, f.E + f.M)
Body(f, x) == [x EXCEPT ![Len(x)] = @ % 128]  \* sign bit cleared (the sign is the top bit of the top digit)
EField(f, x) == ToInt(BShr(Body(f, x), f.M))
MField(f, x) == LET b == Body(f, x) IN Fix(BSub(b, BShl(FromInt(EField(f, x)), f.M)), NBytes(f))

IsNaN(f, x)  == EField(f, x) = EMax(f) /\ ~IsZero(MField(f, x))
IsInf(f, x)  == EField(f, x) = EMax(f) /\ IsZero(MField(f, x))
IsZeroF(f, x) == IsZero(Body(f, x))
IsSub(f, x)  == EField(f, x) = 0 /\ ~IsZero(MField(f, x))
IsFinite(f, x) == EField(f, x) # EMax(f)
Class(f, x) == IF IsNaN(f, x) THEN "nan" ELSE IF IsInf(f, x) THEN "inf" ELSE IF IsZeroF(f, x) THEN "zero"
               ELSE IF IsSub(f, x) THEN "sub" ELSE "normal"

\* ---- comparisons (C03): IEEE order, NaN unordered, -0 = +0 ---------------------------------
FEq(f, x, y) == ~IsNaN(f, x) /\ ~IsNaN(f, y) /\ (x = y \/ (IsZeroF(f, x) /\ IsZeroF(f, y)))
FLt(f, x, y) ==
  /\ ~IsNaN(f, x) /\ ~IsNaN(f, y)
  /\ ~(IsZeroF(f, x) /\ IsZeroF(f, y))
  /\ LET sx == SignOf(f, x)  sy == SignOf(f, y) IN
       IF sx # sy THEN sx = 1
       ELSE IF sx = 0 THEN BLt(Body(f, x), Body(f, y)) ELSE BLt(Body(f, y), Body(f, x))
FLe(f, x, y) == FLt(f, x, y) \/ FEq(f, x, y)
FNe(f, x, y) == ~FEq(f, x, y)
=============================================================================
