------------------------------- MODULE BvLane -------------------------------
(***************************************************************************)
(* The integer lane operations of C01/C07 on little-endian digit sequences  *)
(* (BigNat) of exactly n = W/8 digits: this is the form in which lanes of    *)
(* real traces (8/16/32/64-bit) are judged.  Signed values are handled in    *)
(* offset form Off(x) = x with the top bit flipped = Val(x) + 2^(W-1).       *)
(* LaneEquiv.cfg: TLC checks BvLane = IntLane on every operand pair, W = 8.  *)
(***************************************************************************)
EXTENDS BigNat

NB(x) == Len(x)
WB(x) == 8 * Len(x)
TopBit(x) == x[Len(x)] \div 128
FlipTop(x) == [x EXCEPT ![Len(x)] = (@ + 128) % 256]
Off(S, x) == IF S THEN FlipTop(x) ELSE x               \* order-preserving map to naturals
HalfMod(n) == Seq1([i \in 1 .. n |-> IF i = n THEN 128 ELSE 0], n)     \* 2^(W-1)
AllOnes(n) == Seq1([i \in 1 .. n |-> 255], n)
OneN(n) == Fix(One, n)
MaxPat(n, S) == IF S THEN Seq1([i \in 1 .. n |-> IF i = n THEN 127 ELSE 255], n) ELSE AllOnes(n)
MinPat(n, S) == IF S THEN HalfMod(n) ELSE ZeroN(n)
TwoW(n) == Seq1([i \in 1 .. n + 1 |-> IF i = n + 1 THEN 1 ELSE 0], n + 1)  \* 2^W

VNeg(x) == Fix(BSub(TwoW(Len(x)), x), Len(x))          \* two's complement negation
IsNeg(S, x) == S /\ TopBit(x) = 1
Mag(S, x) == IF IsNeg(S, x) THEN VNeg(x) ELSE x        \* |Val(x)| (MIN maps to 2^(W-1))

VAdd(x, y) == Fix(BAdd(x, y), Len(x))
VSub(x, y) == Fix(BAdd(x, VNeg(y)), Len(x))
VMul(x, y) == Fix(BMul(x, y), Len(x))
VAbs(S, x) == Mag(S, x)
VLe(S, x, y) == BLe(Off(S, x), Off(S, y))
VLt(S, x, y) == BLt(Off(S, x), Off(S, y))
VMin(S, x, y) == IF VLe(S, x, y) THEN x ELSE y
VMax(S, x, y) == IF VLe(S, y, x) THEN x ELSE y
VIncr(x) == VAdd(x, OneN(Len(x)))
VDecr(x) == VSub(x, OneN(Len(x)))
VFma(x, y, z)  == VAdd(VMul(x, y), z)
VFms(x, y, z)  == VSub(VMul(x, y), z)
VFnma(x, y, z) == VAdd(VNeg(VMul(x, y)), z)
VFnms(x, y, z) == VSub(VNeg(VMul(x, y)), z)
VSign(S, x) == IF IsZero(x) THEN x ELSE IF IsNeg(S, x) THEN AllOnes(Len(x)) ELSE OneN(Len(x))

\* long division of naturals, bit by bit: <<quotient, remainder>>
RECURSIVE DivRec(_, _, _, _, _)
DivRec(a, b, i, q, r) ==
  IF i < 0 THEN <<q, r>>
  ELSE LET r2 == Norm(BAdd(BShl(r, 1), FromInt(Bit(a, i))))
       IN IF BLe(b, r2) THEN DivRec(a, b, i - 1, BAdd(BShl(q, 1), One), BSub(r2, b))
          ELSE DivRec(a, b, i - 1, BShl(q, 1), r2)
BDivMod(a, b) == DivRec(a, b, BitLen(a) - 1, <<>>, <<>>)

VDivDefined(S, x, y) == ~IsZero(y) /\ ~(S /\ x = MinPat(Len(x), TRUE) /\ y = AllOnes(Len(x)))
VDiv(S, x, y) == LET n == Len(x)  qr == BDivMod(Mag(S, x), Mag(S, y))  q == Fix(qr[1], n)
                 IN IF IsNeg(S, x) # IsNeg(S, y) THEN VNeg(q) ELSE q
VRem(S, x, y) == LET n == Len(x)  qr == BDivMod(Mag(S, x), Mag(S, y))  r == Fix(qr[2], n)
                 IN IF IsNeg(S, x) THEN VNeg(r) ELSE r            \* remainder takes the dividend's sign

\* saturated add/sub through the offset form (exact sums of naturals)
VSadd(S, x, y) ==
  LET n == Len(x) IN
  IF ~S THEN (LET s == BAdd(x, y) IN IF BitLen(s) > 8 * n THEN AllOnes(n) ELSE Fix(s, n))
  ELSE LET s == BAdd(Off(S, x), Off(S, y))                   \* = Val(x)+Val(y)+2^W
           lo == HalfMod(n)                                  \* sum = MIN  <=> s = 2^(W-1)
           hi == BAdd(TwoW(n), MaxPat(n, TRUE))              \* sum = MAX  <=> s = 2^W+2^(W-1)-1
       IN IF BLt(s, lo) THEN MinPat(n, TRUE)
          ELSE IF BLt(hi, s) THEN MaxPat(n, TRUE)
          ELSE FlipTop(Fix(BSub(s, lo), n))
VSsub(S, x, y) ==
  LET n == Len(x) IN
  IF ~S THEN (IF BLt(x, y) THEN ZeroN(n) ELSE Fix(BSub(x, y), n))
  ELSE IF BLe(Off(S, y), Off(S, x))
       THEN LET d == BSub(Off(S, x), Off(S, y)) IN IF BLt(MaxPat(n, TRUE), d) THEN MaxPat(n, TRUE) ELSE Fix(d, n)
       ELSE LET d == BSub(Off(S, y), Off(S, x)) IN IF BLt(HalfMod(n), d) THEN MinPat(n, TRUE) ELSE VNeg(Fix(d, n))
VAvg(S, x, y) ==
  LET n == Len(x) IN
  IF ~S THEN Fix(BShr(BAdd(x, y), 1), n)
  ELSE LET s == BAdd(Off(S, x), Off(S, y)) IN               \* Val sum + 2^W
       IF BLe(TwoW(n), s) THEN Fix(BShr(BSub(s, TwoW(n)), 1), n)
       ELSE VNeg(Fix(BShr(BSub(TwoW(n), s), 1), n))          \* toward zero
VAvgrConstrained(S, x, y) == ~S \/ BLe(TwoW(Len(x)), BAdd(Off(S, x), Off(S, y)))
VAvgr(S, x, y) ==
  LET n == Len(x) IN
  IF ~S THEN Fix(BShr(BAdd(BAdd(x, y), One), 1), n)
  ELSE Fix(BShr(BAdd(BSub(BAdd(Off(S, x), Off(S, y)), TwoW(n)), One), 1), n)   \* only when constrained

\* ---- C07 -----------------------------------------------------------------
VAnd(x, y) == BAnd(x, y, Len(x))
VOr(x, y)  == BOr(x, y, Len(x))
VXor(x, y) == BXor(x, y, Len(x))
VNot(x)    == BNot(x, Len(x))
VAndNot(x, y) == VAnd(x, VNot(y))
VShl(x, k) == Fix(BShl(x, k), Len(x))
VShrL(x, k) == Fix(BShr(x, k), Len(x))
VShrA(x, k) == IF TopBit(x) = 0 \/ k = 0 THEN VShrL(x, k)
               ELSE VOr(VShrL(x, k), VShl(AllOnes(Len(x)), WB(x) - k))
VShr(S, x, k) == IF S THEN VShrA(x, k) ELSE VShrL(x, k)
VRotl(x, k) == IF k = 0 THEN x ELSE VOr(VShl(x, k), VShrL(x, WB(x) - k))
VRotr(x, k) == IF k = 0 THEN x ELSE VOr(VShrL(x, k), VShl(x, WB(x) - k))
=============================================================================
