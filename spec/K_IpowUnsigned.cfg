CONSTANTS W = 12
 Signed = FALSE
 Halving = "div"
SPECIFICATION Spec
INVARIANT Bound
INVARIANT Result
PROPERTY Termination
CONSTRAINT Cap
CHECK_DEADLOCK FALSE
