-------------------------------- MODULE T_Prog --------------------------------
(* Trace specification for straight-line programs (harness family "prog"): one  *)
(* event per executed program = the three initial rows, the program, and the     *)
(* row written by every instruction.  One TLC step per instruction; the operands  *)
(* of a step are the machine's OWN registers (Prog.tla), only the result row is    *)
(* bound from the log.  A rejected step prints REJECT, the destination is          *)
(* re-synchronised from the log and the program continues (later steps are judged   *)
(* on what the code really left behind).                                            *)
EXTENDS Prog, Json, IOUtils
VARIABLE l
Log == ndJsonDeserialize(IOEnv.TRACE)
StepRow(e, j) == SubSeq(e.r, 64 * (j - 1) + 1, 64 * j)
RejectLine(e, j, ins, bad) ==
  "REJECT id=" \o ToString(e.id) \o " k=prog op=" \o OpOf(ins).n \o " t=" \o e.t \o " lanes=" \o ToString(bad) \o " archs=" \o ToString(e.archs)
  \o " known=- fl=" \o e.op \o " step=" \o ToString(j) \o " ins=" \o ToString(ins)
  \o (IF bad = {} THEN "" ELSE LET i == CHOOSE q \in bad : \A k \in bad : q <= k IN
        " lane=" \o ToString(i) \o (IF ValueDest(ins) /\ OpOf(ins).cls # "sel"
                                    THEN " x=" \o ToString(OperandX(ins, e.t, i)) \o " y=" \o ToString(OperandY(ins, e.t, i)) \o " z=" \o ToString(OperandZ(ins, e.t, i))
                                         \o " r=" \o ToString(Lane(StepRow(e, j), e.t, i))
                                    ELSE " r=" \o ToString(StepRow(e, j)[i + 1])))
Init == /\ l = 1 /\ pc = 0 /\ R = [i \in 0 .. 3 |-> ZeroRow] /\ M = [i \in 0 .. 1 |-> <<>>]
        /\ reg = [i \in 0 .. 3 |-> NoRow] /\ breg = <<>> /\ last = <<>>
        /\ TLCSet(1, 0) /\ TLCSet(2, 0) /\ TLCSet(3, 0) /\ TLCSet(4, 0)
WellFormed(e) == /\ e.k = "prog" /\ e.t \in TypeNames /\ Len(e.a) = 64 /\ Len(e.b) = 64 /\ Len(e.c) = 64
                 /\ Len(e.r) = 64 * NIns(e.d)
Step ==
  /\ l <= Len(Log)
  /\ UNCHANGED xvars
  /\ LET e == Log[l] IN
     IF ~WellFormed(e)
     THEN /\ PrintT("REJECT id=" \o ToString(e.id) \o " k=" \o e.k \o " op=" \o e.op \o " t=" \o e.t \o " lanes={} archs=" \o ToString(e.archs) \o " known=-")
          /\ TLCSet(2, TLCGet(2) + 1) /\ l' = l + 1 /\ TLCSet(4, l) /\ UNCHANGED pvars
     ELSE IF pc = 0 THEN LoadWith(e.t, e.a, e.b, e.c) /\ UNCHANGED l
     ELSE IF pc > NIns(e.d) THEN l' = l + 1 /\ pc' = 0 /\ UNCHANGED <<R, M>> /\ TLCSet(4, l)
     ELSE LET ins == Ins(e.d, pc)  r == StepRow(e, pc)  bad == StepBad(ins, e.t, r) IN
          /\ UNCHANGED l
          /\ IF bad = {} /\ e.op \in OpOf(ins).fl /\ (ValueDest(ins) \/ \A q \in NLanes(e.t) + 1 .. 64 : r[q] = 0)
             THEN StepWith(ins, e.t, r) /\ TLCSet(1, TLCGet(1) + 1) /\ TLCSet(3, TLCGet(3) + NLanes(e.t))
             ELSE /\ PrintT(RejectLine(e, pc, ins, bad)) /\ TLCSet(2, TLCGet(2) + 1)
                  /\ Commit(ins, e.t, r) /\ pc' = pc + 1
Next == Step
Accepted == /\ PrintT("STATS events=" \o ToString(Len(Log)) \o " consumed=" \o ToString(TLCGet(4)) \o " accepted=" \o ToString(TLCGet(1))
                       \o " rejected=" \o ToString(TLCGet(2)) \o " lanes=" \o ToString(TLCGet(3)))
            /\ TLCGet(4) = Len(Log)
=============================================================================
