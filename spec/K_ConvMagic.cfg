INIT Init
NEXT Next
INVARIANT ConvOK
CHECK_DEADLOCK FALSE
