INIT Init
NEXT Next
INVARIANT TransposeOK
CHECK_DEADLOCK FALSE
