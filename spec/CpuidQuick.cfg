CONSTANTS LowBits = 4
 Quick = TRUE
INIT Init
NEXT Next
INVARIANTS TableOK TableComplete
CHECK_DEADLOCK FALSE
