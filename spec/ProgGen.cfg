CONSTANTS Flavour = "c01"
 Kind = "int"
 Depth = 16
 Regs = {0, 1, 2, 3}
 Imms = {0, 1, 3, 7}
INIT Init
NEXT Next
CHECK_DEADLOCK FALSE
