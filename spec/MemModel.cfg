CONSTANT PageSize = 12
INIT Init
NEXT Next
INVARIANTS NoGuardAccess FrameOK RangeWritten
CHECK_DEADLOCK FALSE
