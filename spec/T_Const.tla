-------------------------------- MODULE T_Const --------------------------------
(* Trace specification for C19: every event is the observation of one generated template instantiation (a program);  *)
(* the parameters of the program (value packs, generator, operator) are attached to the event by the generator.       *)
EXTENDS Xsimd, Json, IOUtils
VARIABLE l
Log == ndJsonDeserialize(IOEnv.TRACE)
Opt(e, f) == IF f \in DOMAIN e THEN e[f] ELSE NoRow
Init == /\ l = 1 /\ reg = [i \in 0 .. 3 |-> NoRow] /\ breg = <<>> /\ last = <<>>
        /\ TLCSet(1, 0) /\ TLCSet(2, 0) /\ TLCSet(3, 0) /\ TLCSet(4, 0)
Step ==
  /\ l <= Len(Log)
  /\ LET e == Log[l] IN
     IF e.k = "cc" /\ e.t \in TypeNames /\ e.w > 0 /\ ConstOK(e.ck, e.op, e.t, e.w \div TypeTab[e.t].nb, Opt(e, "va"), Opt(e, "vb"), Opt(e, "g"), e.r)
     THEN reg' = [reg EXCEPT ![0] = e.r] /\ last' = <<e.ck, e.op, e.t>> /\ UNCHANGED breg /\ TLCSet(1, TLCGet(1) + 1) /\ TLCSet(3, TLCGet(3) + e.w \div TypeTab[e.t].nb)
     ELSE /\ PrintT("REJECT id=" \o ToString(e.id) \o " k=" \o e.k \o " op=" \o e.ck \o ":" \o e.op \o " t=" \o e.t \o " lanes={} archs=" \o ToString(e.archs) \o " w=" \o ToString(e.w)
                    \o " case=" \o e.cid \o " known=-")
          /\ TLCSet(2, TLCGet(2) + 1) /\ UNCHANGED xvars
  /\ l' = l + 1 /\ TLCSet(4, l)
Next == Step
Accepted == /\ PrintT("STATS events=" \o ToString(Len(Log)) \o " consumed=" \o ToString(TLCGet(4)) \o " accepted=" \o ToString(TLCGet(1))
                       \o " rejected=" \o ToString(TLCGet(2)) \o " lanes=" \o ToString(TLCGet(3)))
            /\ TLCGet(4) = Len(Log)
=============================================================================
