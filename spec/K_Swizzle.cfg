CONSTANT Full = FALSE
CONSTANT Kinds = {"avx32", "avx64", "sse16", "pshufb2", "pshufb4", "pshufb8", "ssse16", "avx2_64", "fold16"}
INIT Init
NEXT Next
INVARIANT SwizzleKernelsOK
CHECK_DEADLOCK FALSE
