------------------------------- MODULE K_Ipow -------------------------------
(***************************************************************************)
(* The square-and-multiply loop of detail::ipow (xsimd_scalar.hpp), behind   *)
(* xsimd::pow(x, n) for an integral exponent of ANY integer type, scalar and  *)
(* batch (property C14; the result is C17's).  The exponent type is modelled   *)
(* at width W, signed or unsigned: b & 1 is the parity of the two's-complement  *)
(* pattern, b /= 2 truncates toward zero (C++).  The product is abstract: the    *)
(* accumulator holds x^er and the running square x^ea.                           *)
(*   Bound       : at most W iterations, whatever the exponent                   *)
(*   Result      : on exit the accumulator is x^|n| (the caller takes 1/r for     *)
(*                 n < 0), also for the most negative exponent                    *)
(*   Termination : the loop exits (weak fairness)                                 *)
(* Halving = "shift" replaces b /= 2 by b >>= 1 (arithmetic shift: floor): TLC     *)
(* then finds the run that never leaves b = -1 (kept as a regression of the model;  *)
(* two seeded changes of the code were exactly this).                              *)
(***************************************************************************)
EXTENDS Integers, TLC
CONSTANTS W, Signed, Halving
VARIABLES n, b, ea, er, it, pc
vars == <<n, b, ea, er, it, pc>>
Pow2(k) == 2 ^ k
MinN == IF Signed THEN -Pow2(W - 1) ELSE 0
MaxN == IF Signed THEN Pow2(W - 1) - 1 ELSE Pow2(W) - 1
Odd(v) == v % 2 = 1                                   \* parity of the two's-complement pattern ((-7) % 2 = 1 in TLA+)
Half(v) == IF Halving = "shift" THEN v \div 2         \* floor: arithmetic right shift
           ELSE IF v >= 0 THEN v \div 2 ELSE -((-v) \div 2)      \* C++ division truncates toward zero
Init == n \in MinN .. MaxN /\ b = n /\ ea = 1 /\ er = 0 /\ it = 0 /\ pc = "loop"
Iter == /\ pc = "loop"
        /\ LET er2 == IF Odd(b) THEN er + ea ELSE er   b2 == Half(b) IN
           /\ er' = er2 /\ b' = b2 /\ it' = it + 1
           /\ IF b2 = 0 THEN pc' = "done" /\ ea' = ea ELSE pc' = "loop" /\ ea' = 2 * ea
        /\ UNCHANGED n
Spec == Init /\ [][Iter]_vars /\ WF_vars(Iter)
Bound == it <= W
Result == pc = "done" => er = (IF n < 0 THEN -n ELSE n)
Termination == <>(pc = "done")
Cap == it <= W + 1
=============================================================================
