----------------------------- MODULE MathCatalog -----------------------------
(***************************************************************************)
(* Catalogue of the elementary functions (properties C10 - C14, C17): for    *)
(* each function its parity, its domain, the results required at special      *)
(* operands (property C12) and its accuracy bound in half-ulps (DESIGN.md      *)
(* section 8, properties C10/C11).  Everything here is classification and bit  *)
(* manipulation on IEEE.Dec - no real arithmetic.                              *)
(***************************************************************************)
EXTENDS IEEE

Unary == {"exp", "exp2", "exp10", "expm1", "log", "log2", "log10", "log1p", "sin", "cos", "tan", "asin", "acos", "atan", "sinh", "cosh", "tanh",
          "asinh", "acosh", "atanh", "cbrt", "erf", "erfc", "tgamma", "lgamma", "sqrt"}
OddFns == {"sin", "tan", "asin", "atan", "sinh", "tanh", "asinh", "atanh", "cbrt", "erf"}
EvenFns == {"cos", "cosh"}
Parity(fn) == IF fn \in OddFns THEN "odd" ELSE IF fn \in EvenFns THEN "even" ELSE "none"

OneF(f) == Enc(f, 0, Bias(f), <<>>)
MOneF(f) == Enc(f, 1, Bias(f), <<>>)
PInfF(f) == EncInf(f, 0)
NInfF(f) == EncInf(f, 1)
\* pi/2 correctly rounded
HalfPi(f) == IF f.M = 23 THEN <<219, 15, 201, 63>> ELSE <<24, 45, 68, 84, 251, 33, 249, 63>>
Near(f, r, c, ulps) == ~IsNaN(f, r) /\ BLe(OrdinalDistance(f, r, c), FromInt(ulps))
IsNegInt(f, x) == SignOf(f, x) = 1 /\ IsFlint(f, x) /\ ~IsZeroF(f, x)
AbsGt1(f, x) == FLt(f, OneF(f), FAbs(f, x))

\* x outside the mathematical domain: the result must be NaN
OutOfDomain(fn, f, x) ==
  CASE fn \in {"log", "log2", "log10"} -> FLt(f, x, EncZero(f, 0))
    [] fn = "log1p" -> FLt(f, x, MOneF(f))
    [] fn = "sqrt"  -> FLt(f, x, EncZero(f, 0))
    [] fn \in {"asin", "acos", "atanh"} -> AbsGt1(f, x)
    [] fn = "acosh" -> FLt(f, x, OneF(f))
    [] OTHER -> FALSE

\* required result r of fn at operand x (C12); TRUE where the property does not constrain the pair
SpecialOK(fn, f, x, r) ==
  LET d == Dec(f, x) IN
  IF d.cls = "nan" THEN IsNaN(f, r)
  ELSE IF OutOfDomain(fn, f, x) THEN IsNaN(f, r)
  ELSE CASE fn = "exp"   -> (x = NInfF(f) => IsZeroF(f, r) /\ SignOf(f, r) = 0) /\ (x = PInfF(f) => r = PInfF(f)) /\ (d.cls = "zero" => r = OneF(f))
         [] fn \in {"exp2", "exp10"} -> (x = NInfF(f) => IsZeroF(f, r)) /\ (x = PInfF(f) => r = PInfF(f)) /\ (d.cls = "zero" => r = OneF(f))
         [] fn = "expm1" -> (x = NInfF(f) => r = MOneF(f)) /\ (x = PInfF(f) => r = PInfF(f))
         [] fn \in {"log", "log2", "log10"} -> (d.cls = "zero" => r = NInfF(f)) /\ (x = PInfF(f) => r = PInfF(f)) /\ (x = OneF(f) => IsZeroF(f, r))
         [] fn = "log1p" -> (x = MOneF(f) => r = NInfF(f)) /\ (x = PInfF(f) => r = PInfF(f))
         [] fn = "cos"   -> (d.cls = "zero" => r = OneF(f)) /\ (d.cls = "inf" => IsNaN(f, r))
         [] fn \in {"sin", "tan"} -> (d.cls = "inf" => IsNaN(f, r))
         [] fn = "atan"  -> (d.cls = "inf" => Near(f, r, WithSign(f, HalfPi(f), d.s), 4))
         [] fn = "tanh"  -> (d.cls = "inf" => r = WithSign(f, OneF(f), d.s))
         [] fn = "erf"   -> (d.cls = "inf" => r = WithSign(f, OneF(f), d.s))
         [] fn = "erfc"  -> (x = PInfF(f) => IsZeroF(f, r))
         [] fn = "cbrt"  -> (d.cls = "inf" => r = x)
         [] fn = "sqrt"  -> (x = PInfF(f) => r = x)
         [] fn = "tgamma" -> (d.cls = "zero" => r = EncInf(f, d.s)) /\ (IsNegInt(f, x) => IsNaN(f, r)) /\ (x = PInfF(f) => r = PInfF(f))
         [] fn = "lgamma" -> (IsNegInt(f, x) => r = PInfF(f)) /\ (x = PInfF(f) => r = PInfF(f))
         [] fn \in {"sinh", "asinh"} -> (d.cls = "inf" => r = x)
         [] fn \in {"cosh", "acosh"} -> (x = PInfF(f) => r = PInfF(f))
         [] fn = "atanh" -> (x = OneF(f) => r = PInfF(f)) /\ (x = MOneF(f) => r = NInfF(f))
         [] OTHER -> TRUE
\* binary functions
Special2OK(fn, f, x, y, r) ==
  LET dx == Dec(f, x)  dy == Dec(f, y) IN
  IF fn = "hypot" /\ (dx.cls = "inf" \/ dy.cls = "inf") THEN TRUE      \* hypot(inf, NaN): IEEE 754 says +inf, the property says NaN: left free
  ELSE IF dx.cls = "nan" \/ dy.cls = "nan" THEN IsNaN(f, r)       \* "a NaN argument yields NaN" (also pow(1, NaN))
  ELSE CASE fn = "pow" -> /\ (dy.cls = "zero" /\ dx.cls \in {"sub", "normal"} => r = OneF(f))                          \* pow(x, 0) = 1 for finite non-zero x
                          /\ (dx.s = 1 /\ dx.cls \in {"sub", "normal"} /\ dy.cls \in {"sub", "normal"} /\ ~IsFlint(f, y) => IsNaN(f, r))   \* negative base, non-integer exponent
         [] OTHER -> TRUE
\* bit-for-bit symmetry: yp = fn(x), yn = fn(-x)
ParityOK(fn, f, yp, yn) ==
  CASE Parity(fn) = "odd"  -> IF IsNaN(f, yp) THEN IsNaN(f, yn) ELSE yn = FlipSign(f, yp)
    [] Parity(fn) = "even" -> IF IsNaN(f, yp) THEN IsNaN(f, yn) ELSE yn = yp
    [] OTHER -> TRUE
\* bit-for-bit identities between two functions on the same operand (NaN <-> NaN)
SameOK(f, y1, y2) == IF IsNaN(f, y1) THEN IsNaN(f, y2) ELSE y1 = y2

\* ---- accuracy bounds in HALF ulps (DESIGN.md section 8): B2(fn, f) = 2 * bound ------------------------------------------
B2(fn, f) ==
  IF f.M = 23 THEN
    CASE fn = "exp" -> 5 [] fn = "exp2" -> 5 [] fn = "exp10" -> 4 [] fn = "expm1" -> 5 [] fn = "log" -> 3 [] fn = "log2" -> 5 [] fn = "log10" -> 3
      [] fn = "log1p" -> 3 [] fn = "sin" -> 6 [] fn = "cos" -> 6 [] fn = "tan" -> 9 [] fn = "asin" -> 6 [] fn = "acos" -> 4 [] fn = "atan" -> 6
      [] fn = "sinh" -> 7 [] fn = "cosh" -> 7 [] fn = "tanh" -> 4 [] fn = "asinh" -> 9 [] fn = "acosh" -> 6 [] fn = "atanh" -> 5 [] fn = "cbrt" -> 3
      [] fn = "erf" -> 6 [] fn = "sqrt" -> 1 [] fn = "hypot" -> 5 [] fn = "atan2" -> 8 [] fn = "erfc" -> 256 [] fn = "tgamma" -> 512 [] fn = "lgamma" -> 16
      [] OTHER -> 9
  ELSE
    CASE fn = "exp" -> 4 [] fn = "exp2" -> 5 [] fn = "exp10" -> 6 [] fn = "expm1" -> 6 [] fn = "log" -> 4 [] fn = "log2" -> 4 [] fn = "log10" -> 4
      [] fn = "log1p" -> 4 [] fn = "sin" -> 7 [] fn = "cos" -> 7 [] fn = "tan" -> 9 [] fn = "asin" -> 5 [] fn = "acos" -> 5 [] fn = "atan" -> 7
      [] fn = "sinh" -> 6 [] fn = "cosh" -> 5 [] fn = "tanh" -> 5 [] fn = "asinh" -> 6 [] fn = "acosh" -> 6 [] fn = "atanh" -> 6 [] fn = "cbrt" -> 4
      [] fn = "erf" -> 256 [] fn = "sqrt" -> 1 [] fn = "hypot" -> 5 [] fn = "atan2" -> 8 [] fn = "erfc" -> 268435456 [] fn = "tgamma" -> 8192 [] fn = "lgamma" -> 16
      [] OTHER -> 9
=============================================================================
