------------------------------ MODULE LaneBool ------------------------------
(***************************************************************************)
(* Boolean semantics of property C03: the six comparisons per element type,  *)
(* the batch_bool algebra, mask()/from_mask as the bijection between          *)
(* [lanes -> BOOLEAN] and 0 .. 2^n-1, all/any/none/count as functions of the  *)
(* mask, select as a lane-wise bit multiplexer.  Masks are sequences of 0/1.  *)
(***************************************************************************)
EXTENDS BvLane, IEEE

CmpOps == {"eq", "neq", "lt", "le", "gt", "ge", "op==", "op!=", "op<", "op<=", "op>", "op>=", "op!"}
\* kind = "int": S = signedness;  kind = "float": f = format
CmpInt(op, S, x, y) ==
  CASE op \in {"eq", "op=="}  -> x = y
    [] op \in {"neq", "op!="} -> x # y
    [] op \in {"lt", "op<"}   -> VLt(S, x, y)
    [] op \in {"le", "op<="}  -> VLe(S, x, y)
    [] op \in {"gt", "op>"}   -> VLt(S, y, x)
    [] op \in {"ge", "op>="}  -> VLe(S, y, x)
    [] op = "op!"              -> IsZero(x)                         \* batch::operator!: x == 0
CmpFloat(op, f, x, y) ==
  CASE op \in {"eq", "op=="}  -> FEq(f, x, y)
    [] op \in {"neq", "op!="} -> FNe(f, x, y)
    [] op \in {"lt", "op<"}   -> FLt(f, x, y)
    [] op \in {"le", "op<="}  -> FLe(f, x, y)
    [] op \in {"gt", "op>"}   -> FLt(f, y, x)
    [] op \in {"ge", "op>="}  -> FLe(f, y, x)
    [] op = "op!"              -> IsZeroF(f, x)

B2I(b) == IF b THEN 1 ELSE 0
\* ---- Boolean algebra on masks (sequences of 0/1 of equal length) -------------------------------
MAnd(p, q)    == [i \in 1 .. Len(p) |-> B2I(p[i] = 1 /\ q[i] = 1)]
MOr(p, q)     == [i \in 1 .. Len(p) |-> B2I(p[i] = 1 \/ q[i] = 1)]
MXor(p, q)    == [i \in 1 .. Len(p) |-> B2I(p[i] # q[i])]
MNot(p)       == [i \in 1 .. Len(p) |-> 1 - p[i]]
MAndNot(p, q) == [i \in 1 .. Len(p) |-> B2I(p[i] = 1 /\ q[i] = 0)]      \* bitwise_andnot(p, q) = p & ~q
MEq(p, q)     == [i \in 1 .. Len(p) |-> B2I(p[i] = q[i])]
MNeq(p, q)    == MXor(p, q)
\* mask() : bit i set iff lane i true, as a little-endian 8-digit sequence
RECURSIVE ByteOf(_, _, _)
ByteOf(p, base, k) == IF k = 8 THEN 0 ELSE (IF base + k + 1 <= Len(p) /\ p[base + k + 1] = 1 THEN 2 ^ k ELSE 0) + ByteOf(p, base, k + 1)
MaskVal(p) == Seq1([j \in 1 .. 8 |-> ByteOf(p, 8 * (j - 1), 0)], 8)
FromMask(m, n) == Seq1([i \in 1 .. n |-> Bit(m, i - 1)], n)               \* m : digit sequence, bits above n ignored
RECURSIVE PopRec(_, _)
PopRec(p, i) == IF i > Len(p) THEN 0 ELSE p[i] + PopRec(p, i + 1)
MCount(p) == PopRec(p, 1)
MAll(p)  == MCount(p) = Len(p)
MAny(p)  == MCount(p) > 0
MNone(p) == MCount(p) = 0
=============================================================================
