-------------------------------- MODULE T_Bool --------------------------------
(* Trace specification for property C03: comparison events ("cmp"), select     *)
(* events ("sel") and register-granular batch_bool events ("bb") recorded from *)
(* the real code on every architecture.                                        *)
EXTENDS Xsimd, Json, IOUtils
VARIABLE l
Log == ndJsonDeserialize(IOEnv.TRACE)
Opt(e, f) == IF f \in DOMAIN e THEN e[f] ELSE NoRow
RejectLine(e, bad) == "REJECT id=" \o ToString(e.id) \o " k=" \o e.k \o " op=" \o e.op \o " t=" \o e.t
                      \o " lanes=" \o ToString(bad) \o " archs=" \o ToString(e.archs) \o " w=" \o ToString(e.w)
                      \o " src=" \o (IF "src" \in DOMAIN e THEN e.src ELSE "-") \o " known=-"
Init == /\ l = 1 /\ reg = [i \in 0 .. 3 |-> NoRow] /\ breg = <<>> /\ last = <<>>
        /\ TLCSet(1, 0) /\ TLCSet(2, 0) /\ TLCSet(3, 0) /\ TLCSet(4, 0)
Rej(e, bad) == /\ PrintT(RejectLine(e, bad)) /\ TLCSet(2, TLCGet(2) + 1) /\ UNCHANGED xvars
Acc(n) == TLCSet(1, TLCGet(1) + 1) /\ TLCSet(3, TLCGet(3) + n)
Step ==
  /\ l <= Len(Log)
  /\ LET e == Log[l]  a == Opt(e, "a")  b == Opt(e, "b")  c == Opt(e, "c") IN
     IF e.t \notin TypeNames THEN Rej(e, {})
     ELSE CASE e.k = "cmp" /\ e.op \in CmpOps ->
                 LET bad == CmpBad(e.op, e.t, a, b, e.r) IN
                 IF bad = {} THEN CmpWith(e.op, e.t, a, b, e.r) /\ Acc(NLanes(e.t)) ELSE Rej(e, bad)
            [] e.k = "sel" ->
                 LET bad == SelBad(e.t, a, b, c, e.r) IN
                 IF bad = {} THEN SelWith(e.t, a, b, c, e.r) /\ Acc(NLanes(e.t)) ELSE Rej(e, bad)
            [] e.k = "bb" /\ e.w > 0 ->
                 LET n == e.w \div TypeTab[e.t].nb IN
                 IF BoolOK(e.op, e.t, n, a, b, e.r) THEN BoolWith(e.op, e.t, n, a, b, e.r) /\ Acc(n) ELSE Rej(e, {})
            [] OTHER -> Rej(e, {})
  /\ l' = l + 1 /\ TLCSet(4, l)
Next == Step
Accepted == /\ PrintT("STATS events=" \o ToString(Len(Log)) \o " consumed=" \o ToString(TLCGet(4)) \o " accepted=" \o ToString(TLCGet(1))
                       \o " rejected=" \o ToString(TLCGet(2)) \o " lanes=" \o ToString(TLCGet(3)))
            /\ TLCGet(4) = Len(Log)
=============================================================================
