-------------------------------- MODULE T_Cvt --------------------------------
(* Trace specification for conversion events (C06): batch_cast, load_as,        *)
(* store_as (aligned and unaligned forms), broadcast_as for every (From, To)     *)
(* pair and bitwise_cast with its round trip, on every architecture.             *)
EXTENDS Xsimd, Json, IOUtils
VARIABLE l
Log == ndJsonDeserialize(IOEnv.TRACE)
CvtOps == {"batch_cast", "load_as", "load_as_al", "store_as", "store_as_al", "broadcast_as"}
RejectLine(e, bad) == "REJECT id=" \o ToString(e.id) \o " k=" \o e.k \o " op=" \o e.op \o " t=" \o e.t \o " to=" \o e.to \o " w=" \o ToString(e.w)
                      \o " lanes=" \o ToString(bad) \o " archs=" \o ToString(e.archs) \o " known=-"
                      \o (IF bad = {} THEN "" ELSE LET i == CHOOSE j \in bad : \A k \in bad : j <= k IN
                            " lane=" \o ToString(i) \o " x=" \o ToString(IF e.op = "broadcast_as" THEN Lane(e.a, e.t, 0) ELSE CycLane(e.a, e.t, i))
                            \o " r=" \o ToString(OutLane(e.r, e.to, i)))
Init == /\ l = 1 /\ reg = [i \in 0 .. 3 |-> NoRow] /\ breg = <<>> /\ last = <<>>
        /\ TLCSet(1, 0) /\ TLCSet(2, 0) /\ TLCSet(3, 0) /\ TLCSet(4, 0)
Rej(e, bad) == /\ PrintT(RejectLine(e, bad)) /\ TLCSet(2, TLCGet(2) + 1) /\ UNCHANGED xvars
Acc(n) == TLCSet(1, TLCGet(1) + 1) /\ TLCSet(3, TLCGet(3) + n)
Step ==
  /\ l <= Len(Log)
  /\ LET e == Log[l] IN
     IF e.k # "cv" \/ e.t \notin TypeNames \/ e.to \notin TypeNames THEN Rej(e, {})
     ELSE IF e.op = "bitwise_cast"
          THEN IF ENABLED CvtWith(e.op, e.t, e.to, e.w, e.a, e.r) THEN CvtWith(e.op, e.t, e.to, e.w, e.a, e.r) /\ Acc(1) ELSE Rej(e, {})
          ELSE IF e.op \in CvtOps /\ e.w > 0
               THEN LET bad == CvtBad(e.op, e.t, e.to, e.w, e.a, e.r) IN
                    IF bad = {} THEN CvtWith(e.op, e.t, e.to, e.w, e.a, e.r) /\ Acc(CvtCount(e.op, e.t, e.to, e.w)) ELSE Rej(e, bad)
               ELSE Rej(e, {})
  /\ l' = l + 1 /\ TLCSet(4, l)
Next == Step
Accepted == /\ PrintT("STATS events=" \o ToString(Len(Log)) \o " consumed=" \o ToString(TLCGet(4)) \o " accepted=" \o ToString(TLCGet(1))
                       \o " rejected=" \o ToString(TLCGet(2)) \o " lanes=" \o ToString(TLCGet(3)))
            /\ TLCGet(4) = Len(Log)
=============================================================================
