------------------------------- MODULE K_Gamma -------------------------------
(***************************************************************************)
(* Loop skeletons of the data-dependent recurrences of xsimd (property C14): *)
(*   tg   : tgamma_other                (xsimd_generic_math.hpp, three loops)  *)
(*   lg64 : lgamma_impl<double>::other   (two loops) as called by compute()     *)
(*   lg32 : lgamma_impl<float>::other    (two loops) as called by compute()     *)
(* Lanes hold abstract values: half-integers v/2 on a grid, and the specials   *)
(* Huge (absorbing: Huge +- 1 = Huge, models |x| >= 2^24 / 2^53), +-Inf, NaN.  *)
(* Each loop iteration is one action LoopIter that updates exactly the lanes    *)
(* whose predicate holds, as the select() chains of the code do, and counts a   *)
(* tick.  Clamped = TRUE models the argument clamps that bound the loops (the   *)
(* repaired code); Clamped = FALSE reproduces the shipped recurrences, for      *)
(* which TLC finds the unbounded runs (kept as a regression of the model).      *)
(* Properties: Bound (ticks never exceed a constant that does not depend on     *)
(* the argument) and Termination under weak fairness.                           *)
(***************************************************************************)
EXTENDS Integers, FiniteSets, TLC
CONSTANTS Lanes, Grid, Clamped, TgLimit2      \* TgLimit2 = 2 * overflow limit of tgamma (e.g. 2*36 for float)
VARIABLES fn, pc, a, x, aux, ticks
kvars == <<fn, pc, a, x, aux, ticks>>
NaN == 999999  PInf == 900000  Huge == 800000  NHuge == -800000  NInf == -900000
Specials == {NaN, PInf, Huge, NHuge, NInf}
Lt(p, q) == p # NaN /\ q # NaN /\ p < q
Ge(p, q) == p # NaN /\ q # NaN /\ p >= q
Plus(p, d) == IF p \in Specials THEN p ELSE p + d          \* d in half units
\* half-integer grid used by the configurations (values are 2x): around every threshold of the three kernels
GridDef == {-80, -70, -69, -68, -67, -66, -65, -40, -9, -5, -4, -3, -2, -1, 0, 1, 2, 3, 4, 5, 6, 7, 12, 13, 14, 25, 26, 27, 60, 70, 71, 72, 73, 74, 200, 343, 344, 400}
Values == Grid \cup Specials

\* ---- entry: the callers' clamps --------------------------------------------------------------------------
\* tgamma: test = self < -33 handled elsewhere; +inf -> 2; (repair) x > limit -> 2
TgEntry(v) == IF Lt(v, -66) THEN 4 ELSE IF v = PInf THEN 4 ELSE IF Clamped /\ Lt(TgLimit2, v) THEN 4 ELSE v
\* lgamma<double>::compute calls other(a); (repair) lanes with a < -34 are replaced by 1 before the call
Lg64Entry(v) == IF Clamped /\ Lt(v, -68) THEN 2 ELSE v
\* lgamma<float>::compute calls other(q) with q = |x| (NaN for poles); tx = x < 6.5 ? x : 0
Abs(v) == IF v = NaN THEN NaN ELSE IF v < 0 THEN -v ELSE v
Lg32Tx(v) == IF Lt(Abs(v), 13) THEN Abs(v) ELSE 0

Init == /\ fn \in {"tg", "lg64", "lg32"} /\ a \in [Lanes -> Values] /\ pc = 1
        /\ ticks = [i \in 1 .. 3 |-> 0]
        /\ x = [l \in Lanes |-> CASE fn = "tg" -> TgEntry(a[l]) [] fn = "lg64" -> (IF Lt(Lg64Entry(a[l]), 26) THEN Lg64Entry(a[l]) ELSE 0)
                                   [] fn = "lg32" -> Lg32Tx(a[l])]
        /\ aux = [l \in Lanes |-> 0]                       \* p / nx accumulators (half units)
\* per-loop lane predicate
Pred(l) ==
  CASE fn = "tg" /\ pc = 1 -> Ge(x[l], 6)                                   \* x >= 3
    [] fn = "tg" /\ pc = 2 -> Lt(x[l], 0)                                   \* x < 0
    [] fn = "tg" /\ pc = 3 -> Lt(x[l], 4)                                   \* x < 2
    [] fn = "lg64" /\ pc = 1 -> Ge(x[l], 6)                                 \* u >= 3
    [] fn = "lg64" /\ pc = 2 -> Lt(x[l], 4)                                 \* u < 2
    [] fn = "lg32" /\ pc = 1 -> Ge(Abs(a[l]), 3) /\ Lt(5, x[l])             \* x >= 1.5 && tx > 2.5
    [] fn = "lg32" /\ pc = 2 -> Lt(x[l], 3) /\ ~Ge(Abs(a[l]), 3 \div 2 + 0) /\ ~Ge(2 * Abs(a[l]), 3)   \* tx < 1.5 && !(x >= 0.75)
    [] OTHER -> FALSE
NLoops == IF fn = "tg" THEN 3 ELSE 2
Step(l) ==   \* new value of the loop variable of lane l when its predicate holds
  CASE fn = "tg" /\ pc = 1 -> Plus(x[l], -2)
    [] fn = "tg" -> Plus(x[l], 2)
    [] fn = "lg64" /\ pc = 1 -> Plus(Plus(Lg64Entry(a[l]), aux[l]), -2)     \* u = x + p with p decremented: absorbing for Huge x
    [] fn = "lg64" /\ pc = 2 -> Plus(Plus(Lg64Entry(a[l]), aux[l]), 2)
    [] fn = "lg32" /\ pc = 1 -> Plus(Plus(Abs(a[l]), aux[l]), -2)
    [] fn = "lg32" /\ pc = 2 -> Plus(Plus(Abs(a[l]), aux[l]), 2)
LoopIter == /\ pc <= NLoops /\ \E l \in Lanes : Pred(l)
            /\ x' = [l \in Lanes |-> IF Pred(l) THEN Step(l) ELSE x[l]]
            /\ aux' = [l \in Lanes |-> IF Pred(l) /\ fn # "tg" THEN aux[l] + (IF pc = 1 THEN -2 ELSE 2) ELSE aux[l]]
            /\ ticks' = [ticks EXCEPT ![pc] = @ + 1]
            /\ UNCHANGED <<fn, pc, a>>
LoopExit == /\ pc <= NLoops /\ ~\E l \in Lanes : Pred(l)
            /\ pc' = pc + 1 /\ UNCHANGED <<fn, a, x, aux, ticks>>
Next == LoopIter \/ LoopExit
Spec == Init /\ [][Next]_kvars /\ WF_kvars(Next)
Done == pc > NLoops
Termination == <>Done
\* iteration bounds that do not depend on the argument
BoundOf(f, i) == CASE f = "tg" /\ i = 1 -> TgLimit2 \div 2 [] f = "tg" /\ i = 2 -> 34 [] f = "tg" /\ i = 3 -> 2
                   [] f = "lg64" /\ i = 1 -> 10 [] f = "lg64" /\ i = 2 -> 36 [] f = "lg32" /\ i = 1 -> 4 [] f = "lg32" /\ i = 2 -> 2 [] OTHER -> 0
Bound == \A i \in 1 .. 3 : ticks[i] <= BoundOf(fn, i)
\* keep the as-shipped exploration finite: stop exploring once the bound is exceeded (the violation is already reported)
Cap == \A i \in 1 .. 3 : ticks[i] <= BoundOf(fn, i) + 1
=============================================================================
