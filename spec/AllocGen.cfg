CONSTANTS Depth = 4
 MinLen = 4
 MaxLive = 2
 Elts = {1, 48}
 Aligns = {16, 64, 4096}
 Counts = {0, 1, 3}
INIT Init
NEXT Next
INVARIANT Emit
CONSTRAINT Bound
CHECK_DEADLOCK FALSE
