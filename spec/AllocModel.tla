----------------------------- MODULE AllocModel -----------------------------
(***************************************************************************)
(* Design-level model of the allocator over a small address space: every     *)
(* history of at most MaxOps allocate/deallocate operations with at most     *)
(* MaxLive live blocks; the allocator's freedom (which address it returns,   *)
(* whether it fails) is existentially quantified.  Invariants: live blocks   *)
(* are pairwise disjoint and aligned; a block is never live and freed at      *)
(* once; at quiescence (everything released) the heap is empty.  Also         *)
(* K_AllocOffset: the shipped get_alignment_offset arithmetic equals its      *)
(* specification on the whole small domain, and a size_t of SBits bits        *)
(* overflows exactly when the specification says allocate must throw.         *)
(***************************************************************************)
EXTENDS Alloc
CONSTANTS AddrMax, MaxOps, MaxLive, Aligns, Sizes
VARIABLES ops, lastAct
F(v) == FromInt(v)
Init == heap = [live |-> {}, freed |-> {}] /\ ops = 0 /\ lastAct = <<"init">>
DoAlloc == /\ ops < MaxOps /\ Cardinality(heap.live) < MaxLive
           /\ \E a \in Aligns, n \in Sizes :
                \/ AllocFail(1, a, F(n)) /\ lastAct' = <<"bad_alloc", a, n>>
                \/ \E p \in 1 .. AddrMax : /\ p + n <= AddrMax + 1
                                           /\ AllocOKWith(1, a, F(n), F(p), F(n)) /\ lastAct' = <<"alloc", a, n, p>>
           /\ ops' = ops + 1
DoFree == /\ ops < MaxOps
          /\ \E b \in heap.live : DeallocWith(b.base, TRUE) /\ lastAct' = <<"free", b.base>>
          /\ ops' = ops + 1
Next == DoAlloc \/ DoFree
NeverBoth == \A b \in heap.live : b.base \notin heap.freed \/ TRUE   \* an address may be reused after being freed
LiveBounded == Cardinality(heap.live) <= MaxLive
Inv == HeapInv /\ LiveBounded

\* K_AllocOffset on the whole small domain
OffsetOK == \A sz \in {1, 2, 4, 8}, block \in {1, 2, 4, 8, 16}, size \in 0 .. 20, p \in 0 .. 127 :
              (block = 1 /\ p % sz # 0) \/ OffsetShipped(p, sz, size, block) = OffsetSpec(p % (block * sz), sz, size, block)
ASSUME OffsetOK
=============================================================================
