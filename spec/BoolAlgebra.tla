----------------------------- MODULE BoolAlgebra -----------------------------
(***************************************************************************)
(* Design-level check of the Boolean layer of property C03 on the machine's *)
(* batch_bool registers: TLC enumerates every mask p of n lanes (n <= NMax)  *)
(* and every pair (p, q) for n <= NPair and checks the algebraic laws that   *)
(* tie mask/from_mask/count/all/any/none and the operators together, and the *)
(* transcription K_Count of xsimd's count() bit tricks                       *)
(* (xsimd_generic_logical.hpp:27-68) against the definitional popcount.      *)
(***************************************************************************)
EXTENDS LaneBool, TLC
CONSTANTS NMax, NPair
VARIABLES n, p, ph
Masks(k) == [1 .. k -> {0, 1}]
Init == n \in 1 .. NMax /\ ph = 0 /\ p = <<>>
Next == ph = 0 /\ ph' = 1 /\ n' = n /\ p' \in Masks(n)

\* ---- K_Count -----------------------------------------------------------------------------------------
C1 == <<1, 128, 0, 64, 0, 32>>                     \* 0x200040008001
C2 == <<17, 17, 17, 17, 17, 17, 17, 1>>           \* 0x111111111111111
CountSmall(m) == BModSmall(BAnd(Fix(BMul(m, C1), 8), C2, 8), 15)          \* lanes < 14
Rep(b, k) == [i \in 1 .. k |-> b]
CountSwar32(m0) ==
  LET m1 == Fix(BSub(BAdd(m0, BPow2(32)), BAnd(BShr(m0, 1), Rep(85, 4), 4)), 4)
      m2 == Fix(BAdd(BAnd(m1, Rep(51, 4), 4), BAnd(BShr(m1, 2), Rep(51, 4), 4)), 4)
      m3 == BAnd(Fix(BAdd(m2, BShr(m2, 4)), 4), Rep(15, 4), 4)
  IN ToInt(BShr(Fix(BMul(m3, Rep(1, 4)), 4), 24))
CountSwar64(m0) ==
  LET m1 == Fix(BSub(BAdd(m0, BPow2(64)), BAnd(BShr(m0, 1), Rep(85, 8), 8)), 8)
      m2 == Fix(BAdd(BAnd(m1, Rep(51, 8), 8), BAnd(BShr(m1, 2), Rep(51, 8), 8)), 8)
      m3 == BAnd(Fix(BAdd(m2, BShr(m2, 4)), 8), Rep(15, 8), 8)
  IN ToInt(BShr(Fix(BMul(m3, Rep(1, 8)), 8), 56))

Laws ==
  ph = 0 \/
  LET m == MaskVal(p) IN
  /\ FromMask(m, n) = p                                   \* from_mask o mask = id
  /\ MaskVal(FromMask(m, n)) = m
  /\ MCount(p) = MCount(FromMask(m, n))
  /\ (n < 14 => CountSmall(m) = MCount(p))                 \* K_Count, multiplication trick
  /\ CountSwar32(Fix(m, 4)) = MCount(p)                    \* K_Count, 32-bit SWAR
  /\ CountSwar64(m) = MCount(p)                            \* K_Count, 64-bit SWAR
  /\ MAll(p) = (MNot(p) = [i \in 1 .. n |-> 0]) /\ MAny(p) = ~MNone(p) /\ MNone(p) = (ToInt(Fix(m, 3)) = 0)
  /\ MNot(MNot(p)) = p
  /\ (n <= NPair => \A q \in Masks(n) :
        /\ MNot(MAnd(p, q)) = MOr(MNot(p), MNot(q))        \* De Morgan
        /\ MAndNot(p, q) = MAnd(p, MNot(q))
        /\ MXor(p, q) = MAnd(MOr(p, q), MNot(MAnd(p, q)))
        /\ MEq(p, q) = MNot(MXor(p, q))
        /\ MaskVal(MAnd(p, q)) = BAnd(m, MaskVal(q), 8)    \* mask() is a homomorphism to integers
        /\ MaskVal(MOr(p, q)) = BOr(m, MaskVal(q), 8)
        /\ MaskVal(MXor(p, q)) = BXor(m, MaskVal(q), 8)
        /\ MCount(MOr(p, q)) + MCount(MAnd(p, q)) = MCount(p) + MCount(q))

\* wide masks (32 and 64 lanes): seeded random + every one-hot / all-but-one for the SWAR kernels
WideMasks == {[i \in 1 .. 64 |-> IF i = k THEN 1 ELSE 0] : k \in 1 .. 64} \cup {[i \in 1 .. 64 |-> IF i = k THEN 0 ELSE 1] : k \in 1 .. 64}
Wide == ph = 1 \/ n # 1 \/
        /\ \A w \in WideMasks : CountSwar64(MaskVal(w)) = MCount(w) /\ CountSwar32(Fix(MaskVal(w), 4)) = MCount(SubSeq(w, 1, 32))
        /\ \A k \in 1 .. 2000 : LET w == [i \in 1 .. 64 |-> RandomElement({0, 1})] IN
                                  CountSwar64(MaskVal(w)) = MCount(w) /\ CountSwar32(Fix(MaskVal(w), 4)) = MCount(SubSeq(w, 1, 32))
=============================================================================
