---------------------------------- MODULE Cplx ----------------------------------
(***************************************************************************)
(* Complex batches (property C16).  Arithmetic is judged WITHOUT any table:   *)
(* for finite operands the textbook results (ac - bd, ad + bc) and             *)
(* ((ac + bd), (bc - ad)) / (c^2 + d^2) are exact dyadic rationals, and         *)
(*   |r - t| <= K eps |t|   is decided by cross-multiplication on BigNat         *)
(* (no square root, no division): err^2 * 2^(2p-2) <= K^2 |t|^2.                 *)
(* Complex functions are judged against the tabulated Exact (Accuracy.tla):       *)
(*   |r_c - t_c| <= K eps max(|t|, 1) for each component c.                       *)
(***************************************************************************)
EXTENDS Accuracy

\* exact dyadic values as [s, m, e, zero]
DZero == [s |-> 0, m |-> <<>>, e |-> 0, sticky |-> FALSE, zero |-> TRUE]
DOf(f, x) == LET d == Dec(f, x) IN IF d.m = <<>> THEN DZero ELSE [s |-> d.s, m |-> d.m, e |-> d.e, sticky |-> FALSE, zero |-> FALSE]
DNeg(a) == IF a.zero THEN a ELSE [a EXCEPT !.s = 1 - a.s]
DAdd(a, b) == IF a.zero THEN b ELSE IF b.zero THEN a ELSE AddExactP(100000, a.s, a.m, a.e, b.s, b.m, b.e)
DSub(a, b) == DAdd(a, DNeg(b))
DMul(a, b) == IF a.zero \/ b.zero THEN DZero ELSE [s |-> (a.s + b.s) % 2, m |-> Norm(BMul(a.m, b.m)), e |-> a.e + b.e, sticky |-> FALSE, zero |-> FALSE]
DSq(a) == DMul(a, a)
\* |a| * 2^ka <= |b| * 2^kb
DAbsLe(a, ka, b, kb) == a.zero \/ (~b.zero /\ CmpScaled(a.m, a.e + ka, b.m, b.e + kb) <= 0)
FiniteC(f, a, b) == IsFinite(f, a) /\ IsFinite(f, b)
\* |r - t|^2 * 2^(2p-2) <= K^2 * (t_re^2 + t_im^2), with K = 2^k2 (K = 8: k2 = 3), r a datum, t exact; scaled by D for quotients:
\* |r D - N|^2 * 2^(2p-2) <= K^2 * |N|^2
CompOK(f, k2, r, D, Nc, Nre, Nim) ==
  LET err == DSub(DMul(DOf(f, r), D), Nc)
      mod2 == DAdd(DSq(Nre), DSq(Nim))
  IN IsFinite(f, r) /\ DAbsLe(DSq(err), 2 * Prec(f) - 2, mod2, 2 * k2)
DOne == [s |-> 0, m |-> <<1>>, e |-> 0, sticky |-> FALSE, zero |-> FALSE]
V(r) == r      \* FAdd returns a datum for finite operands (NaNRes never arises on the generated grid)
\* fused forms: the error is bounded relative to |z w| + |v| (the result itself may cancel): err^2 2^(2p-2) <= 64 * 2 (|zw|^2 + |v|^2)
FmaCompOK(f, x, y, tre, tim, pre, pim, G, H) ==
  LET m2 == DAdd(DAdd(DSq(pre), DSq(pim)), DAdd(DSq(G), DSq(H)))
      ex == DSub(DOf(f, x), tre)  ey == DSub(DOf(f, y), tim)
  IN IsFinite(f, x) /\ IsFinite(f, y) /\ DAbsLe(DSq(ex), 2 * Prec(f) - 2, m2, 7) /\ DAbsLe(DSq(ey), 2 * Prec(f) - 2, m2, 7)

\* operands (a + bi), (c + di), third operand (g + hi); result (x + yi)
CArithOK(op, f, a, b, c, d, g, h, x, y) ==
  LET A == DOf(f, a)  B == DOf(f, b)  C == DOf(f, c)  Dd == DOf(f, d)  G == DOf(f, g)  H == DOf(f, h)
      pre == DSub(DMul(A, C), DMul(B, Dd))   pim == DAdd(DMul(A, Dd), DMul(B, C))           \* (a + bi)(c + di)
  IN CASE op = "add" -> x = V(FAdd(f, a, c)) /\ y = V(FAdd(f, b, d))
       [] op = "sub" -> x = V(FSub(f, a, c)) /\ y = V(FSub(f, b, d))
       [] op = "mul" -> CompOK(f, 3, x, DOne, pre, pre, pim) /\ CompOK(f, 3, y, DOne, pim, pre, pim)
       [] op = "div" -> LET den == DAdd(DSq(C), DSq(Dd))
                            nre == DAdd(DMul(A, C), DMul(B, Dd))  nim == DSub(DMul(B, C), DMul(A, Dd))
                        IN den.zero \/ (CompOK(f, 3, x, den, nre, nre, nim) /\ CompOK(f, 3, y, den, nim, nre, nim))
       [] op = "fma"  -> LET tre == DAdd(pre, G)  tim == DAdd(pim, H) IN FmaCompOK(f, x, y, tre, tim, pre, pim, G, H)
       [] op = "fms"  -> LET tre == DSub(pre, G)  tim == DSub(pim, H) IN FmaCompOK(f, x, y, tre, tim, pre, pim, G, H)
       [] op = "fnma" -> LET tre == DSub(G, pre)  tim == DSub(H, pim) IN FmaCompOK(f, x, y, tre, tim, pre, pim, G, H)
       [] op = "fnms" -> LET tre == DNeg(DAdd(pre, G))  tim == DNeg(DAdd(pim, H)) IN FmaCompOK(f, x, y, tre, tim, pre, pim, G, H)
\* exact component operations
ConjOK(f, a, b, x, y) == x = a /\ y = FlipSign(f, b)
NegOK(f, a, b, x, y) == x = FlipSign(f, a) /\ y = FlipSign(f, b)
\* proj: the argument itself unless a component is infinite, then (+inf, copysign(0, im))
ProjOK(f, a, b, x, y) == IF IsInf(f, a) \/ IsInf(f, b) THEN x = EncInf(f, 0) /\ y = EncZero(f, SignOf(f, b)) ELSE x = a /\ y = b

\* tabulated functions: component c of the result against table entry ent (kind 0 value / 1 zero), modulus entry md, K = 2^k2
TabCompOK(f, k2, r, ent, md) ==
  LET p == Prec(f)  dr == DOf(f, r)
      t == IF ent.k = 1 THEN DZero ELSE [s |-> ent.s, m |-> ent.m, e |-> ent.e - p - 7, sticky |-> FALSE, zero |-> FALSE]
      err == DSub(dr, t)
      \* tolerance K * 2^(1-p) * max(|t|, 1) * (1 + 2^-6) + one table unit of the component
      big == md.k = 0 /\ md.e >= 0
      tolm == IF big THEN md.m ELSE <<1>>
      tole == IF big THEN md.e - p - 7 ELSE 0
  IN IsFinite(f, r) /\ (err.zero \/
       \* |err| <= tol  <=>  |err| * 64 <= tolm * 2^tole * 2^(k2 + 1 - p) * 65  (+ slack for the truncated entries)
       CmpScaled(BMulSmall(err.m, 64), err.e, BMulSmall(tolm, 65), tole + k2 + 1 - p) <= 0)
=============================================================================
