CONSTANT Full = TRUE
CONSTANT Kinds = {"avx32", "sse16"}
INIT Init
NEXT Next
INVARIANT SwizzleKernelsOK
CHECK_DEADLOCK FALSE
