------------------------------- MODULE T_Alloc -------------------------------
(* Trace specification for property C18: allocator histories recorded from the *)
(* real aligned_allocator (one process = one history), plus the stateless      *)
(* is_aligned / get_alignment_offset / operator== / max_size observations.     *)
EXTENDS Alloc, Json, IOUtils
VARIABLES l, peak          \* peak: the largest number of blocks that were live at the same time in the current history
Log == ndJsonDeserialize(IOEnv.TRACE)
RejectLine(e, why) == "REJECT id=" \o ToString(e.id) \o " k=" \o e.k \o " op=" \o e.op \o " t=" \o e.t \o " lanes={} archs=" \o ToString(e.archs)
                      \o " why=" \o why \o " known=-"
Init0 == /\ l = 1 /\ peak = 0 /\ heap = [live |-> {}, freed |-> {}]
         /\ TLCSet(1, 0) /\ TLCSet(2, 0) /\ TLCSet(3, 0) /\ TLCSet(4, 0)
Acc == TLCSet(1, TLCGet(1) + 1) /\ TLCSet(3, TLCGet(3) + 1)
Rej(e, why) == PrintT(RejectLine(e, why)) /\ TLCSet(2, TLCGet(2) + 1)
Sub(r, i, n) == SubSeq(r, i, i + n - 1)
U16(r, i) == r[i] + 256 * r[i + 1]
Step ==
  /\ l <= Len(Log)
  /\ LET e == Log[l] IN
     CASE e.kind = "allocate" ->
            LET n == e.a  sz == e.sz  al == e.align IN
            IF e.r[1] = 2 THEN AllocFail(sz, al, n) /\ Acc                         \* bad_alloc: always allowed
            ELSE IF e.r[1] # 1 THEN Rej(e, "exception") /\ UNCHANGED heap
            ELSE LET p == Sub(e.r, 2, 8)  usable == Sub(e.r, 10, 8) IN
                 IF IsZero(p) /\ Representable(n, sz) /\ IsZero(Bytes(n, sz)) THEN Acc /\ UNCHANGED heap     \* allocate(0) may return a null pointer: it addresses 0 bytes
                 ELSE IF ~Representable(n, sz) THEN Rej(e, "overflow-not-reported") /\ heap' = [heap EXCEPT !.live = @ \cup {[base |-> Norm(p), size |-> <<>>, align |-> al]}]
                 ELSE IF ENABLED AllocOKWith(sz, al, n, p, usable) THEN AllocOKWith(sz, al, n, p, usable) /\ Acc
                 ELSE Rej(e, IF ~AlignedTo(p, al) THEN "misaligned" ELSE IF ~BLe(Bytes(n, sz), usable) THEN "too-small" ELSE "overlap")
                      /\ heap' = [heap EXCEPT !.live = @ \cup {[base |-> Norm(p), size |-> <<>>, align |-> al]}]
       [] e.kind = "deallocate" ->
            LET p == Sub(e.r, 1, 8) IN
            IF IsZero(p) THEN Acc /\ UNCHANGED heap                                 \* slot was empty (allocation had failed)
            ELSE IF ENABLED DeallocWith(p, e.r[9] = 1) THEN DeallocWith(p, e.r[9] = 1) /\ Acc
            ELSE Rej(e, IF e.r[9] # 1 THEN "corrupt" ELSE "not-live") /\ heap' = [heap EXCEPT !.live = {b \in @ : b.base # Norm(p)}]
       [] e.kind = "quiesce" ->
            \* end of one history: every block handed out has been released AND the allocator has given them back: the number of blocks
            \* it still holds from the system (e.sys, observed underneath the allocator) is at most what a pool could legitimately retain -
            \* the peak number of simultaneously live blocks (the shipped allocator retains none); the next history starts from an empty heap
            (IF heap.live = {} /\ e.sys <= peak THEN Acc ELSE Rej(e, IF heap.live = {} THEN "leak-inside-deallocate" ELSE "leak")) /\ heap' = [live |-> {}, freed |-> {}]
       [] e.kind = "rebind" ->
            \* allocate + deallocate through rebind<double>::other: the block is aligned to the ORIGINAL allocator's alignment and the
            \* rebound allocators compare equal to it (equal alignments)
            (IF e.r[1] = 2 \/ (e.r[1] = 1 /\ AlignedTo(Sub(e.r, 2, 8), e.align) /\ BLe(Sub(e.r, 18, 8), Sub(e.r, 10, 8)) /\ e.r[28] = 1 /\ e.r[29] = 1)
             THEN Acc ELSE Rej(e, "rebind")) /\ UNCHANGED heap
       [] e.kind = "maxsize" ->
            \* max_size() = floor(SIZE_MAX / sizeof(T)): largest n with n*sizeof(T) representable
            (IF Representable(Sub(e.r, 1, 8), e.sz) /\ ~Representable(BAdd(Sub(e.r, 1, 8), One), e.sz) THEN Acc ELSE Rej(e, "max_size")) /\ UNCHANGED heap
       [] e.kind = "alloc_eq" ->
            (IF (e.r[1] = 1) = (e.a1 = e.a2) /\ (e.r[2] = 1) = (e.a1 # e.a2) THEN Acc ELSE Rej(e, "operator==")) /\ UNCHANGED heap
       [] e.kind = "offset" ->
            LET sz == e.sz  p == Sub(e.a, 1, 8)  size == ToInt(Sub(e.a, 9, 8))  block == ToInt(Sub(e.a, 17, 8))
                pres == BModSmall(p, block * sz)  got == Sub(e.r, 1, 8) IN
            (IF (block = 1 /\ pres % sz # 0) \/ BEq(got, FromInt(OffsetSpec(pres, sz, size, block))) THEN Acc ELSE Rej(e, "offset")) /\ UNCHANGED heap
       [] e.kind = "is_aligned" ->
            LET p == Sub(e.a, 1, 8)  A == U16(e.r, 2) IN
            (IF (e.r[1] = 1) = AlignedTo(p, A) THEN Acc ELSE Rej(e, "is_aligned")) /\ UNCHANGED heap
       [] e.kind = "default_alloc" ->
            \* the default allocator's blocks satisfy aligned loads/stores of the default architecture: pointer is a multiple of
            \* the architecture's alignment, which is at least the register width
            LET p == Sub(e.r, 1, 8)  A == U16(e.r, 9)  regb == U16(e.r, 11) IN
            (IF AlignedTo(p, A) /\ A >= regb /\ AlignedTo(p, regb) THEN Acc ELSE Rej(e, "default-alignment")) /\ UNCHANGED heap
       [] OTHER -> Rej(e, "no-action") /\ UNCHANGED heap
  /\ peak' = IF Log[l].kind = "quiesce" THEN 0 ELSE IF Cardinality(heap'.live) > peak THEN Cardinality(heap'.live) ELSE peak
  /\ l' = l + 1 /\ TLCSet(4, l)
Accepted == /\ PrintT("STATS events=" \o ToString(Len(Log)) \o " consumed=" \o ToString(TLCGet(4)) \o " accepted=" \o ToString(TLCGet(1))
                       \o " rejected=" \o ToString(TLCGet(2)) \o " lanes=" \o ToString(TLCGet(3)))
            /\ TLCGet(4) = Len(Log)
\* checked on every state of the replayed history
TraceHeapInv == HeapInv
=============================================================================
