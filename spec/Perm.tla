--------------------------------- MODULE Perm ---------------------------------
(***************************************************************************)
(* Data movement as pure lane permutations (property C05).  A register is a  *)
(* sequence of n lanes (any values: opaque tokens at design level, byte       *)
(* strings in traces); every operation is an index map.  Zero is the zero     *)
(* fill value of the lane domain.                                             *)
(***************************************************************************)
EXTENDS Integers, Sequences, FiniteSets

Mk(n, F(_)) == SubSeq([i \in 1 .. n |-> F(i - 1)], 1, n)          \* materialised sequence, lanes numbered from 0
L(x, i) == x[i + 1]
Swizzle(x, idx) == Mk(Len(idx), LAMBDA i : L(x, L(idx, i)))                            \* out[i] = x[idx[i]]
Shuffle(x, y, idx) == LET n == Len(x) IN Mk(n, LAMBDA i : IF L(idx, i) < n THEN L(x, L(idx, i)) ELSE L(y, L(idx, i) - n))
ZipLo(x, y) == LET n == Len(x) IN Mk(n, LAMBDA i : IF i % 2 = 0 THEN L(x, i \div 2) ELSE L(y, i \div 2))
ZipHi(x, y) == LET n == Len(x) IN Mk(n, LAMBDA i : IF i % 2 = 0 THEN L(x, n \div 2 + i \div 2) ELSE L(y, n \div 2 + i \div 2))
RotateLeft(x, k) == LET n == Len(x) IN Mk(n, LAMBDA i : L(x, (i + k) % n))             \* out[i] = x[(i+N) mod n]
RotateRight(x, k) == LET n == Len(x) IN Mk(n, LAMBDA i : L(x, (i + n - (k % n)) % n))  \* out[i] = x[(i-N) mod n]
\* byte slides on the register seen as a sequence of bytes, zero fill
SlideLeft(b, k, zero) == LET w == Len(b) IN Mk(w, LAMBDA j : IF j >= k THEN L(b, j - k) ELSE zero)
SlideRight(b, k, zero) == LET w == Len(b) IN Mk(w, LAMBDA j : IF j + k < w THEN L(b, j + k) ELSE zero)
\* extract_pair(x, y, k) = [y[k..n-1], x[0..k-1]]
ExtractPair(x, y, k) == LET n == Len(x) IN Mk(n, LAMBDA i : IF i < n - k THEN L(y, k + i) ELSE L(x, i - (n - k)))
Insert(x, k, v) == [x EXCEPT ![k + 1] = v]
\* compress: the lanes selected by mask m (sequence of 0/1), in order, packed at the bottom, zero above
RECURSIVE Selected(_, _, _)
Selected(x, m, i) == IF i > Len(x) THEN <<>> ELSE (IF m[i] = 1 THEN <<x[i]>> ELSE <<>>) \o Selected(x, m, i + 1)
Compress(x, m, zero) == LET s == Selected(x, m, 1) IN Mk(Len(x), LAMBDA i : IF i < Len(s) THEN L(s, i) ELSE zero)
\* expand: lane i with m[i] = 1 receives the next unread lane of x (from lane 0), the others zero
RECURSIVE CountBelow(_, _)
CountBelow(m, i) == IF i = 0 THEN 0 ELSE m[i] + CountBelow(m, i - 1)         \* number of set mask lanes among lanes 0 .. i-1
Expand(x, m, zero) == Mk(Len(x), LAMBDA i : IF L(m, i) = 1 THEN L(x, CountBelow(m, i)) ELSE zero)
\* transpose of an n x n matrix given as a sequence of rows
Transpose(mat) == LET n == Len(mat) IN Mk(n, LAMBDA i : Mk(n, LAMBDA j : L(L(mat, j), i)))
=============================================================================
