------------------------------ MODULE IntLane ------------------------------
(***************************************************************************)
(* Definitional meaning of the integer lane operations of properties C01    *)
(* and C07 on MATHEMATICAL integers, for a lane of W bits (W <= 15 so that  *)
(* native TLC integers suffice) and signedness S.  Lane contents are bit     *)
(* patterns 0 .. 2^W-1; Val() gives the value the C++ type denotes.          *)
(* BvLane.tla states the same operations on digit sequences of any width;    *)
(* LaneEquiv.tla lets TLC check that both agree on every operand pair.       *)
(***************************************************************************)
EXTENDS Integers

P2(k) == 2 ^ k
Mod(W) == P2(W)
ToS(W, x) == IF x >= P2(W - 1) THEN x - P2(W) ELSE x
Val(W, S, x) == IF S THEN ToS(W, x) ELSE x
Wrap(W, v) == v % P2(W)
MinV(W, S) == IF S THEN -P2(W - 1) ELSE 0
MaxV(W, S) == IF S THEN P2(W - 1) - 1 ELSE P2(W) - 1
Clamp(W, S, v) == IF v < MinV(W, S) THEN MinV(W, S) ELSE IF v > MaxV(W, S) THEN MaxV(W, S) ELSE v
AbsI(v) == IF v < 0 THEN -v ELSE v
\* C/C++ integer division truncates toward zero
TruncDiv(a, b) == LET q == AbsI(a) \div AbsI(b) IN IF (a < 0) = (b < 0) THEN q ELSE -q
TruncMod(a, b) == a - TruncDiv(a, b) * b
FloorHalf(v) == v \div 2                                  \* TLA+ \div rounds toward -infinity
CeilHalf(v) == (v + 1) \div 2
TruncHalf(v) == IF v >= 0 THEN v \div 2 ELSE -((-v) \div 2)

Add(W, S, a, b)  == Wrap(W, Val(W, S, a) + Val(W, S, b))
Sub(W, S, a, b)  == Wrap(W, Val(W, S, a) - Val(W, S, b))
Mul(W, S, a, b)  == Wrap(W, Val(W, S, a) * Val(W, S, b))
Neg(W, S, a)     == Wrap(W, -Val(W, S, a))
Abs(W, S, a)     == Wrap(W, AbsI(Val(W, S, a)))          \* abs(MIN) wraps to MIN
Min(W, S, a, b)  == IF Val(W, S, a) <= Val(W, S, b) THEN a ELSE b
Max(W, S, a, b)  == IF Val(W, S, a) >= Val(W, S, b) THEN a ELSE b
Incr(W, S, a)    == Wrap(W, Val(W, S, a) + 1)
Decr(W, S, a)    == Wrap(W, Val(W, S, a) - 1)
IncrIf(W, S, a, m) == IF m THEN Incr(W, S, a) ELSE a
DecrIf(W, S, a, m) == IF m THEN Decr(W, S, a) ELSE a
Fma(W, S, a, b, c)  == Wrap(W, Val(W, S, a) * Val(W, S, b) + Val(W, S, c))
Fms(W, S, a, b, c)  == Wrap(W, Val(W, S, a) * Val(W, S, b) - Val(W, S, c))
Fnma(W, S, a, b, c) == Wrap(W, -(Val(W, S, a) * Val(W, S, b)) + Val(W, S, c))
Fnms(W, S, a, b, c) == Wrap(W, -(Val(W, S, a) * Val(W, S, b)) - Val(W, S, c))
\* div/mod: defined when b # 0 and not (a = MIN /\ b = -1)
DivDefined(W, S, a, b) == Val(W, S, b) # 0 /\ ~(S /\ Val(W, S, a) = MinV(W, S) /\ Val(W, S, b) = -1)
Div(W, S, a, b)  == Wrap(W, TruncDiv(Val(W, S, a), Val(W, S, b)))
Rem(W, S, a, b)  == Wrap(W, TruncMod(Val(W, S, a), Val(W, S, b)))
Sign(W, S, a)    == LET v == Val(W, S, a) IN Wrap(W, IF v > 0 THEN 1 ELSE IF v < 0 THEN -1 ELSE 0)
Sadd(W, S, a, b) == Wrap(W, Clamp(W, S, Val(W, S, a) + Val(W, S, b)))
Ssub(W, S, a, b) == Wrap(W, Clamp(W, S, Val(W, S, a) - Val(W, S, b)))
\* avg: floor for unsigned, toward zero for signed
Avg(W, S, a, b)  == LET v == Val(W, S, a) + Val(W, S, b) IN Wrap(W, IF S THEN TruncHalf(v) ELSE FloorHalf(v))
\* avgr: ceil((a+b)/2), constrained only when a+b >= 0
AvgrConstrained(W, S, a, b) == Val(W, S, a) + Val(W, S, b) >= 0
Avgr(W, S, a, b) == Wrap(W, CeilHalf(Val(W, S, a) + Val(W, S, b)))

\* ---- C07: bit operations -------------------------------------------------
BitOf(x, i) == (x \div P2(i)) % 2
AndI(W, a, b) == LET f[i \in 0 .. W] == IF i = W THEN 0 ELSE (IF BitOf(a, i) = 1 /\ BitOf(b, i) = 1 THEN P2(i) ELSE 0) + f[i + 1] IN f[0]
OrI(W, a, b)  == a + b - AndI(W, a, b)
XorI(W, a, b) == a + b - 2 * AndI(W, a, b)
NotI(W, a)    == P2(W) - 1 - a
AndNotI(W, a, b) == AndI(W, a, NotI(W, b))               \* xsimd::bitwise_andnot(a, b) = a & ~b
Shl(W, a, k)  == (a * P2(k)) % P2(W)                      \* 0 <= k < W
ShrL(W, a, k) == a \div P2(k)
ShrA(W, a, k) == Wrap(W, ToS(W, a) \div P2(k))            \* floor division = sign-filling shift
Shr(W, S, a, k) == IF S THEN ShrA(W, a, k) ELSE ShrL(W, a, k)
Rotl(W, a, k) == IF k = 0 THEN a ELSE (Shl(W, a, k) + ShrL(W, a, W - k)) % P2(W)
Rotr(W, a, k) == IF k = 0 THEN a ELSE (ShrL(W, a, k) + Shl(W, a, W - k)) % P2(W)
=============================================================================
