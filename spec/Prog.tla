--------------------------------- MODULE Prog ---------------------------------
(***************************************************************************)
(* The register machine behind straight-line xsimd programs.                 *)
(*                                                                         *)
(* The trace specifications T_Int ... T_Bool judge API calls one at a time:  *)
(* every event carries its own operands.  Real code keeps batches alive:     *)
(* x += y; m = x < y; z = select(m, x, z); ++z ... - the value an operation   *)
(* sees is whatever earlier operations LEFT in the variable.  This module     *)
(* gives that its state:                                                      *)
(*                                                                         *)
(*   R  : 4 value registers (each one 64-byte row of lanes of type t)         *)
(*   M  : 2 Boolean registers (one 0/1 entry per lane of the row)             *)
(*   pc : position in the current program (0 = program not loaded yet)        *)
(*                                                                         *)
(* and one action per instruction class.  An instruction names its operand     *)
(* and destination registers; the operand VALUES are read from the machine's   *)
(* own state, never from the log - so a write that lands in the wrong          *)
(* variable, a compound assignment that returns the right value but leaves the  *)
(* wrong one behind, an operation that disturbs a register it does not name,    *)
(* or a result that is only wrong when the operand was produced by a particular *)
(* earlier operation, all surface as a rejected step.  The result r of a step   *)
(* is explicit ("With" form, as in Xsimd): trace validation binds it to the     *)
(* logged row, and the lane relations of LaneInt / LaneFloat / LaneBool decide   *)
(* with exactly the latitude the properties grant.                              *)
(*                                                                         *)
(* ProgOps is the instruction table and the single source of truth: the C++      *)
(* interpreter (harness/fam_prog.inc is generated from it by lib/prog.py) uses    *)
(* the index in this sequence as the opcode.  fl = flavour = the property whose    *)
(* relation judges the instruction (programs are generated per flavour, so that a  *)
(* rejected step is a violation of that property and of no other).               *)
(***************************************************************************)
EXTENDS Xsimd
VARIABLES R, M, pc
pvars == <<R, M, pc>>

ProgOps == <<
  [n |-> "id",      cls |-> "mov",  fl |-> {"c01", "c07", "c02", "c03"}, k |-> {"int", "float"}],
  [n |-> "add",     cls |-> "ew2",  fl |-> {"c01", "c02"}, k |-> {"int", "float"}],
  [n |-> "sub",     cls |-> "ew2",  fl |-> {"c01", "c02"}, k |-> {"int", "float"}],
  [n |-> "mul",     cls |-> "ew2",  fl |-> {"c01", "c02"}, k |-> {"int", "float"}],
  [n |-> "neg",     cls |-> "ew1",  fl |-> {"c01", "c02"}, k |-> {"int", "float"}],
  [n |-> "abs",     cls |-> "ew1",  fl |-> {"c01", "c02"}, k |-> {"int", "float"}],
  [n |-> "min",     cls |-> "ew2",  fl |-> {"c01", "c02"}, k |-> {"int", "float"}],
  [n |-> "max",     cls |-> "ew2",  fl |-> {"c01", "c02"}, k |-> {"int", "float"}],
  [n |-> "incr",    cls |-> "ew1",  fl |-> {"c01"}, k |-> {"int"}],
  [n |-> "decr",    cls |-> "ew1",  fl |-> {"c01"}, k |-> {"int"}],
  [n |-> "incr_if", cls |-> "ewm",  fl |-> {"c01"}, k |-> {"int"}],
  [n |-> "decr_if", cls |-> "ewm",  fl |-> {"c01"}, k |-> {"int"}],
  [n |-> "sadd",    cls |-> "ew2",  fl |-> {"c01"}, k |-> {"int"}],
  [n |-> "ssub",    cls |-> "ew2",  fl |-> {"c01"}, k |-> {"int"}],
  [n |-> "avg",     cls |-> "ew2",  fl |-> {"c01"}, k |-> {"int"}],
  [n |-> "avgr",    cls |-> "ew2",  fl |-> {"c01"}, k |-> {"int"}],
  [n |-> "sign",    cls |-> "ew1",  fl |-> {"c01"}, k |-> {"int"}],
  [n |-> "fma",     cls |-> "ew3",  fl |-> {"c01", "c02"}, k |-> {"int", "float"}],
  [n |-> "fms",     cls |-> "ew3",  fl |-> {"c01", "c02"}, k |-> {"int", "float"}],
  [n |-> "fnma",    cls |-> "ew3",  fl |-> {"c01", "c02"}, k |-> {"int", "float"}],
  [n |-> "fnms",    cls |-> "ew3",  fl |-> {"c01", "c02"}, k |-> {"int", "float"}],
  [n |-> "op+=",    cls |-> "cew2", fl |-> {"c01", "c02"}, k |-> {"int", "float"}],
  [n |-> "op-=",    cls |-> "cew2", fl |-> {"c01", "c02"}, k |-> {"int", "float"}],
  [n |-> "op*=",    cls |-> "cew2", fl |-> {"c01", "c02"}, k |-> {"int", "float"}],
  [n |-> "op++",    cls |-> "cew1", fl |-> {"c01", "c02"}, k |-> {"int", "float"}],
  [n |-> "op--",    cls |-> "cew1", fl |-> {"c01", "c02"}, k |-> {"int", "float"}],
  [n |-> "div",     cls |-> "ew2",  fl |-> {"c02"}, k |-> {"float"}],
  [n |-> "sqrt",    cls |-> "ew1",  fl |-> {"c02"}, k |-> {"float"}],
  [n |-> "copysign", cls |-> "ew2", fl |-> {"c02"}, k |-> {"float"}],
  [n |-> "op/=",    cls |-> "cew2", fl |-> {"c02"}, k |-> {"float"}],
  [n |-> "and",     cls |-> "ew2",  fl |-> {"c07", "c02"}, k |-> {"int", "float"}],
  [n |-> "or",      cls |-> "ew2",  fl |-> {"c07", "c02"}, k |-> {"int", "float"}],
  [n |-> "xor",     cls |-> "ew2",  fl |-> {"c07", "c02"}, k |-> {"int", "float"}],
  [n |-> "not",     cls |-> "ew1",  fl |-> {"c07", "c02"}, k |-> {"int", "float"}],
  [n |-> "andnot",  cls |-> "ew2",  fl |-> {"c07", "c02"}, k |-> {"int", "float"}],
  [n |-> "shl",     cls |-> "ewi",  fl |-> {"c07"}, k |-> {"int"}],
  [n |-> "shr",     cls |-> "ewi",  fl |-> {"c07"}, k |-> {"int"}],
  [n |-> "rotl",    cls |-> "ewi",  fl |-> {"c07"}, k |-> {"uint"}],
  [n |-> "rotr",    cls |-> "ewi",  fl |-> {"c07"}, k |-> {"uint"}],
  [n |-> "op&=",    cls |-> "cew2", fl |-> {"c07"}, k |-> {"int"}],
  [n |-> "op|=",    cls |-> "cew2", fl |-> {"c07"}, k |-> {"int"}],
  [n |-> "op^=",    cls |-> "cew2", fl |-> {"c07"}, k |-> {"int"}],
  [n |-> "op<<=",   cls |-> "cewi", fl |-> {"c07"}, k |-> {"int"}],
  [n |-> "op>>=",   cls |-> "cewi", fl |-> {"c07"}, k |-> {"int"}],
  [n |-> "eq",      cls |-> "cmp",  fl |-> {"c03"}, k |-> {"int", "float"}],
  [n |-> "neq",     cls |-> "cmp",  fl |-> {"c03"}, k |-> {"int", "float"}],
  [n |-> "lt",      cls |-> "cmp",  fl |-> {"c03"}, k |-> {"int", "float"}],
  [n |-> "le",      cls |-> "cmp",  fl |-> {"c03"}, k |-> {"int", "float"}],
  [n |-> "gt",      cls |-> "cmp",  fl |-> {"c03"}, k |-> {"int", "float"}],
  [n |-> "ge",      cls |-> "cmp",  fl |-> {"c03"}, k |-> {"int", "float"}],
  [n |-> "select",  cls |-> "sel",  fl |-> {"c03"}, k |-> {"int", "float"}],
  [n |-> "m_and",   cls |-> "mm2",  fl |-> {"c03"}, k |-> {"int", "float"}],
  [n |-> "m_or",    cls |-> "mm2",  fl |-> {"c03"}, k |-> {"int", "float"}],
  [n |-> "m_xor",   cls |-> "mm2",  fl |-> {"c03"}, k |-> {"int", "float"}],
  [n |-> "m_andnot", cls |-> "mm2", fl |-> {"c03"}, k |-> {"int", "float"}],
  [n |-> "m_eq",    cls |-> "mm2",  fl |-> {"c03"}, k |-> {"int", "float"}],
  [n |-> "m_neq",   cls |-> "mm2",  fl |-> {"c03"}, k |-> {"int", "float"}],
  [n |-> "m_not",   cls |-> "mm1",  fl |-> {"c03"}, k |-> {"int", "float"}],
  [n |-> "m_lnot",  cls |-> "mm1",  fl |-> {"c03"}, k |-> {"int", "float"}],
  [n |-> "m_and=",  cls |-> "cmm2", fl |-> {"c03"}, k |-> {"int", "float"}],
  [n |-> "m_or=",   cls |-> "cmm2", fl |-> {"c03"}, k |-> {"int", "float"}],
  [n |-> "m_xor=",  cls |-> "cmm2", fl |-> {"c03"}, k |-> {"int", "float"}],
  [n |-> "m_id",    cls |-> "mmov", fl |-> {"c03"}, k |-> {"int", "float"}] >>

\* an instruction: [opc, d, a, b, c, imm] (six bytes); register names are taken modulo the file sizes
Ins(prog, j) == SubSeq(prog, 2 + 6 * (j - 1), 7 + 6 * (j - 1))          \* byte 1 of the program row is a header (0)
NIns(prog) == (Len(prog) - 1) \div 6
OpOf(ins) == IF ins[1] >= 1 /\ ins[1] <= Len(ProgOps) THEN ProgOps[ins[1]] ELSE [n |-> "?", cls |-> "?", fl |-> {}, k |-> {}]
Rd(ins) == ins[2] % 4   Ra(ins) == ins[3] % 4   Rb(ins) == ins[4] % 4   Rc(ins) == ins[5] % 4
Md(ins) == ins[2] % 2   Ma(ins) == ins[3] % 2   Mb(ins) == ins[4] % 2   Mc(ins) == ins[5] % 2
ValueDest(ins) == OpOf(ins).cls \in {"mov", "ew1", "ew2", "ew3", "ewm", "ewi", "cew1", "cew2", "cewi", "sel"}

\* operand lanes of lane i, read from the machine state
OperandX(ins, t, i) == Lane(IF OpOf(ins).cls \in {"cew1", "cew2", "cewi"} THEN R[Rd(ins)] ELSE R[Ra(ins)], t, i)
OperandY(ins, t, i) == Lane(IF OpOf(ins).cls = "cew2" THEN R[Ra(ins)] ELSE R[Rb(ins)], t, i)
OperandZ(ins, t, i) == Lane(R[Rc(ins)], t, i)
MaskBit(ins, i) == M[Mb(ins)][i + 1] = 1
MaskOpName(n) == CASE n = "m_and" -> "and" [] n = "m_or" -> "or" [] n = "m_xor" -> "xor" [] n = "m_andnot" -> "andnot" [] n = "m_eq" -> "eq"
                   [] n = "m_neq" -> "neq" [] n = "m_not" -> "not" [] n = "m_lnot" -> "lnot" [] n = "m_and=" -> "and=" [] n = "m_or=" -> "or="
                   [] n = "m_xor=" -> "xor=" [] n = "m_id" -> "id"

\* lanes of the logged result row r that the instruction's relation does not allow, given the CURRENT machine state
StepBad(ins, t, r) ==
  LET o == OpOf(ins)  nl == NLanes(t) IN
  CASE o.cls \in {"mov", "ew1", "ew2", "ew3", "ewm", "ewi", "cew1", "cew2", "cewi"} ->
         {i \in LaneIdx(t) :
            ~ IF TypeTab[t].kind = "int"
              THEN IntRel(o.n, TypeTab[t].S, OperandX(ins, t, i), OperandY(ins, t, i), OperandZ(ins, t, i), MaskBit(ins, i), ins[6], Lane(r, t, i))
              ELSE FloatRel(o.n, FmtOfT(t), OperandX(ins, t, i), OperandY(ins, t, i), OperandZ(ins, t, i), Lane(r, t, i))}
    [] o.cls = "cmp" -> {i \in LaneIdx(t) : r[i + 1] # B2I(CmpLane(o.n, t, Lane(R[Ra(ins)], t, i), Lane(R[Rb(ins)], t, i)))}
    [] o.cls = "sel" -> {i \in LaneIdx(t) : Lane(r, t, i) # (IF M[Mc(ins)][i + 1] = 1 THEN Lane(R[Ra(ins)], t, i) ELSE Lane(R[Rb(ins)], t, i))}
    [] o.cls \in {"mm2", "mm1", "mmov"} ->
         LET ex == BoolExpected(MaskOpName(o.n), t, nl, M[Ma(ins)], M[Mb(ins)]) IN {i \in LaneIdx(t) : r[i + 1] # ex[i + 1]}
    [] o.cls = "cmm2" ->
         LET ex == BoolExpected(MaskOpName(o.n), t, nl, M[Md(ins)], M[Ma(ins)]) IN {i \in LaneIdx(t) : r[i + 1] # ex[i + 1]}
    [] OTHER -> LaneIdx(t)

\* the step: the result is allowed, it lands in the named destination and NOTHING else changes
Commit(ins, t, r) ==
  IF ValueDest(ins) THEN R' = [R EXCEPT ![Rd(ins)] = r] /\ UNCHANGED M
  ELSE M' = [M EXCEPT ![Md(ins)] = SubSeq(r, 1, NLanes(t))] /\ UNCHANGED R
StepWith(ins, t, r) == StepBad(ins, t, r) = {} /\ Commit(ins, t, r) /\ pc' = pc + 1

\* loading a program: three operand rows, R3 = 0, M0 = truth value of the lanes of row c, M1 = all false
ZeroRow == [i \in 1 .. RowBytes |-> 0]
LoadWith(t, a, b, c) ==
  /\ R' = [i \in 0 .. 3 |-> CASE i = 0 -> a [] i = 1 -> b [] i = 2 -> c [] OTHER -> ZeroRow]
  /\ M' = [i \in 0 .. 1 |-> IF i = 0 THEN [j \in 1 .. NLanes(t) |-> B2I(MaskLane(c, t, j - 1))] ELSE [j \in 1 .. NLanes(t) |-> 0]]
  /\ pc' = 1
=============================================================================
