------------------------------ MODULE LaneFloat ------------------------------
(***************************************************************************)
(* Lane relation of the floating-point element-wise operations: the basic     *)
(* IEEE operations of C02, the rounding functions of C08 and the conversions  *)
(* of C06.  FloatRel(op, f, x, y, z, r) holds iff the datum r is an allowed    *)
(* result lane.  Latitude of the properties is encoded here: any NaN for a NaN *)
(* result; fused or unfused multiply-add; min/max unconstrained when an        *)
(* operand is NaN; the sign of a zero produced by a rounding function is free. *)
(***************************************************************************)
EXTENDS IEEE, BvLane

FloatOpsC02 == {"add", "sub", "mul", "div", "sqrt", "neg", "abs", "copysign", "and", "or", "xor", "not", "andnot", "bitofsign",
                "fma", "fms", "fnma", "fnms", "min", "max", "fmin", "fmax", "sign", "signnz", "nextafter",
                "op+", "op-", "op*", "op/", "op-u", "op&", "op|", "op^", "op~",
                "op+=", "op-=", "op*=", "op/=", "op&=", "op|=", "op^=", "op++", "op--", "op++post", "op--post", "op++old", "op--old", "op+u", "land", "lor"}
FloatOpsC08 == {"ceil", "floor", "trunc", "round", "nearbyint", "rint"}
FloatPreds == {"isnan", "isinf", "isfinite", "is_flint", "is_even", "is_odd"}

One_(f) == Enc(f, 0, Bias(f), <<>>)             \* 1.0
\* member operators denote the named operation (x op= y leaves and returns x op y; ++x / x++ leave x + 1; x++ returns the old x; +x is x)
FCanon(op) ==
  CASE op = "op+=" -> "add" [] op = "op-=" -> "sub" [] op = "op*=" -> "mul" [] op = "op/=" -> "div" [] op = "op&=" -> "and" [] op = "op|=" -> "or"
    [] op = "op^=" -> "xor" [] op \in {"op++old", "op--old", "op+u"} -> "id" [] OTHER -> op
FloatRel0(op, f, x, y, z, r) ==
  CASE op \in {"add", "op+"} -> ResOK(f, FAdd(f, x, y), r)
    [] op = "id"       -> r = x
    [] op \in {"op++", "op++post"} -> ResOK(f, FAdd(f, x, One_(f)), r)
    [] op \in {"op--", "op--post"} -> ResOK(f, FSub(f, x, One_(f)), r)
    [] op \in {"sub", "op-"} -> ResOK(f, FSub(f, x, y), r)
    [] op \in {"mul", "op*"} -> ResOK(f, FMul(f, x, y), r)
    [] op \in {"div", "op/"} -> FDivOK(f, x, y, r)
    [] op = "sqrt"     -> FSqrtOK(f, x, r)
    [] op \in {"neg", "op-u"} -> r = FNeg(f, x)
    [] op = "abs"      -> r = FAbs(f, x)
    [] op = "copysign" -> r = FCopySign(f, x, y)
    [] op \in {"and", "op&"} -> r = VAnd(x, y)
    [] op \in {"or", "op|"}  -> r = VOr(x, y)
    [] op \in {"xor", "op^"} -> r = VXor(x, y)
    [] op \in {"not", "op~"} -> r = VNot(x)
    [] op = "andnot"   -> r = VAndNot(x, y)
    [] op = "bitofsign" -> r = BitOfSign(f, x)
    [] op = "fma"      -> FmaOK(f, x, y, z, r)
    [] op = "fms"      -> FmaOK(f, x, y, FlipSign(f, z), r)
    [] op = "fnma"     -> FmaOK(f, FlipSign(f, x), y, z, r)
    [] op = "fnms"     -> FmaOK(f, FlipSign(f, x), y, FlipSign(f, z), r)
    [] op \in {"min", "fmin"} -> FMinOK(f, x, y, r)
    [] op \in {"max", "fmax"} -> FMaxOK(f, x, y, r)
    [] op = "clip"     -> (IsNaN(f, x) \/ IsNaN(f, y) \/ IsNaN(f, z) \/ ~FLe(f, y, z)) \/
                          (IF FLt(f, x, y) THEN r = y ELSE IF FLt(f, z, x) THEN r = z ELSE r = x)        \* clip(x, lo, hi), ordered non-NaN bounds
    [] op = "sign"     -> IF IsNaN(f, x) THEN IsNaN(f, r) ELSE IF IsZeroF(f, x) THEN IsZeroF(f, r) ELSE r = WithSign(f, One_(f), SignOf(f, x))
    [] op = "signnz"   -> (IsNaN(f, x) \/ IsZeroF(f, x)) \/ r = WithSign(f, One_(f), SignOf(f, x))
    [] op = "nextafter" -> NextAfterOK(f, x, y, r)
    \* batch && batch, batch || batch (beyond the listed properties): C++ truth value of the lanes (a NaN is true, a zero of either sign false) as 0.0 / 1.0
    [] op = "land"     -> r = (IF ~IsZeroF(f, x) /\ ~IsZeroF(f, y) THEN One_(f) ELSE EncZero(f, 0))
    [] op = "lor"      -> r = (IF ~IsZeroF(f, x) \/ ~IsZeroF(f, y) THEN One_(f) ELSE EncZero(f, 0))
    [] op = "ceil"     -> SameNumber(f, RoundInt(f, x, "up"), r)
    [] op = "floor"    -> SameNumber(f, RoundInt(f, x, "down"), r)
    [] op = "trunc"    -> SameNumber(f, RoundInt(f, x, "zero"), r)
    [] op = "round"    -> SameNumber(f, RoundInt(f, x, "away"), r)
    [] op \in {"nearbyint", "rint"} -> SameNumber(f, RoundInt(f, x, "even"), r)
    [] OTHER -> FALSE
FloatRel(op, f, x, y, z, r) == FloatRel0(FCanon(op), f, x, y, z, r)
FloatPred(op, f, x) ==
  CASE op = "isnan" -> IsNaN(f, x) [] op = "isinf" -> IsInf(f, x) [] op = "isfinite" -> IsFinite(f, x)
    [] op = "is_flint" -> IsFlint(f, x) [] op = "is_even" -> IsEven(f, x) [] op = "is_odd" -> IsOdd(f, x)

\* ldexp(x, k): k is a lane of the same-width signed integer type
IntLaneVal(k) == IF k[Len(k)] >= 128 THEN -ToInt(BSub(BPow2(8 * Len(k)), k)) ELSE ToInt(k)     \* |k| < 2^31 guaranteed by the generator
SignedLane(v, n) == IF v >= 0 THEN Fix(FromInt(v), n) ELSE Fix(BSub(BPow2(8 * n), FromInt(-v)), n)          \* two's complement of v in n bytes
LdexpRel(f, x, k, r) == ResOK(f, Ldexp(f, x, IntLaneVal(k)), r)
\* frexp(x) -> (mantissa m, exponent e lane): exact for finite non-zero x; +-0 -> (+-0, 0); inf/NaN: mantissa = x (any NaN), exponent unspecified
FrexpRel(f, x, m, e) ==
  IF IsNaN(f, x) THEN IsNaN(f, m)
  ELSE IF IsInf(f, x) THEN m = x
  ELSE IF IsZeroF(f, x) THEN m = x /\ IsZero(e)
  ELSE m = FrexpMant(f, x) /\ e = SignedLane(FrexpExp(f, x), Len(e))          \* compared as digit sequences: an arbitrary observed lane must not overflow TLC

(***************************************************************************)
(* Known deviations of the code from C02 (known_findings.json):               *)
(*  ldexp-range   the generic ldexp builds 2^k by shifting k+bias into the      *)
(*                exponent field (xsimd_generic_math.hpp:1114-1122): correct     *)
(*                only for k in [1-bias, bias]; outside, the scale factor is not  *)
(*                2^k (every architecture without a native scalef: all but avx512) *)
(*  frexp-special the generic frexp (xsimd_generic_math.hpp:1062-1074) treats     *)
(*                every operand as a normal number: subnormal, infinite and NaN   *)
(*                operands give a meaningless mantissa/exponent                   *)
(* A rejected lane is classified as one of these only when the operand is in    *)
(* the stated class; anything else is still a violation.                         *)
(***************************************************************************)
LdexpOutOfRange(f, k) == IntLaneVal(k) < 1 - Bias(f) \/ IntLaneVal(k) > Bias(f)
FrexpSpecialOperand(f, x) == IsSub(f, x) \/ IsInf(f, x) \/ IsNaN(f, x)

\* ---- conversions (C06): element of type (kf, Sf, nbf) -> element of type (kt, St, nbt) ----------------------
SExt(S, x, nb) == IF nb <= Len(x) THEN Fix(x, nb)
                  ELSE IF S /\ x[Len(x)] >= 128 THEN x \o Seq1([i \in 1 .. nb - Len(x) |-> 255], nb - Len(x)) ELSE Fix(x, nb)
FmtOfBytes(nb) == IF nb = 4 THEN F32 ELSE F64
CvtDefined(kf, Sf, x, kt, St, nbt) ==
  IF kf = "float" /\ kt = "int" THEN TruncFits(FmtOfBytes(Len(x)), x, St, nbt) ELSE TRUE
CvtRel(kf, Sf, x, kt, St, nbt, r) ==
  CASE kf = "int" /\ kt = "int"     -> r = SExt(Sf, x, nbt)                                  \* modular wrap / sign or zero extension
    [] kf = "int" /\ kt = "float"   -> r = IntToFloat(FmtOfBytes(nbt), Sf, x)                \* round to nearest even
    [] kf = "float" /\ kt = "int"   -> TruncFits(FmtOfBytes(Len(x)), x, St, nbt) => r = FloatToIntTrunc(FmtOfBytes(Len(x)), x, St, nbt)
    [] kf = "float" /\ kt = "float" -> ResOK(FmtOfBytes(nbt), FloatToFloat(FmtOfBytes(Len(x)), FmtOfBytes(nbt), x), r)
NearRel(f, x, nbt, r) == NearFits(f, x, TRUE, nbt) => r = FloatToIntNear(f, x, TRUE, nbt)
=============================================================================
