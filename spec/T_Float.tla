------------------------------- MODULE T_Float -------------------------------
(* Trace specification for floating-point element-wise events (C02, C08, C06   *)
(* same-width conversions, scalar overloads of C17): kinds "ew", "ew2"          *)
(* (frexp), "cmp" (classification predicates) with t in {f32, f64}.             *)
EXTENDS Xsimd, Json, IOUtils
VARIABLE l
Log == ndJsonDeserialize(IOEnv.TRACE)
Opt(e, f) == IF f \in DOMAIN e THEN e[f] ELSE NoRow
LaneStr(e, fld, i) == IF fld \in DOMAIN e THEN ToString(Lane(e[fld], e.t, i)) ELSE "-"
RejectLine(e, bad) == "REJECT id=" \o ToString(e.id) \o " k=" \o e.k \o " op=" \o e.op \o " t=" \o e.t
                      \o " lanes=" \o ToString(bad) \o " archs=" \o ToString(e.archs)
                      \o " known=" \o (IF e.k = "ew" THEN EwFloatKnown(e.op, e.t, e.a, Opt(e, "b"), bad)
                                        ELSE IF e.k = "ew2" THEN FrexpKnown(e.t, e.a, bad) ELSE "-")
                      \o (IF bad = {} THEN "" ELSE LET i == CHOOSE j \in bad : \A k \in bad : j <= k IN
                            " lane=" \o ToString(i) \o " x=" \o LaneStr(e, "a", i) \o " y=" \o LaneStr(e, "b", i) \o " z=" \o LaneStr(e, "c", i)
                            \o " r=" \o (IF e.k = "cmp" THEN ToString(e.r[i + 1]) ELSE ToString(Lane(e.r, e.t, i))))
Init == /\ l = 1 /\ reg = [i \in 0 .. 3 |-> NoRow] /\ breg = <<>> /\ last = <<>>
        /\ TLCSet(1, 0) /\ TLCSet(2, 0) /\ TLCSet(3, 0) /\ TLCSet(4, 0)
Rej(e, bad) == /\ PrintT(RejectLine(e, bad)) /\ TLCSet(2, TLCGet(2) + 1) /\ UNCHANGED xvars
Acc(n) == TLCSet(1, TLCGet(1) + 1) /\ TLCSet(3, TLCGet(3) + n)
Step ==
  /\ l <= Len(Log)
  /\ LET e == Log[l]  a == Opt(e, "a")  b == Opt(e, "b")  c == Opt(e, "c") IN
     IF e.t \notin {"f32", "f64"} THEN Rej(e, {})
     ELSE CASE e.k = "ew" ->
                 LET bad == EwFloatBad(e.op, e.t, a, b, c, e.r) IN
                 IF bad = {} THEN EwFloatWith(e.op, e.t, a, b, c, e.r) /\ Acc(NLanes(e.t)) ELSE Rej(e, bad)
            [] e.k = "ew2" /\ e.op = "frexp" ->
                 LET bad == FrexpBad(e.t, a, e.r) IN
                 IF bad = {} THEN FrexpWith(e.t, a, e.r) /\ Acc(NLanes(e.t)) ELSE Rej(e, bad)
            [] e.k = "cmp" /\ e.op \in FloatPreds ->
                 LET bad == PredBad(e.op, e.t, a, e.r) IN
                 IF bad = {} THEN PredWith(e.op, e.t, a, e.r) /\ Acc(NLanes(e.t)) ELSE Rej(e, bad)
            [] OTHER -> Rej(e, {})
  /\ l' = l + 1 /\ TLCSet(4, l)
Next == Step
Accepted == /\ PrintT("STATS events=" \o ToString(Len(Log)) \o " consumed=" \o ToString(TLCGet(4)) \o " accepted=" \o ToString(TLCGet(1))
                       \o " rejected=" \o ToString(TLCGet(2)) \o " lanes=" \o ToString(TLCGet(3)))
            /\ TLCGet(4) = Len(Log)
=============================================================================
