CONSTANT Variant = "noshift"
INIT Init
NEXT Next
INVARIANTS Cmp16OK
CHECK_DEADLOCK FALSE
