INIT Init
NEXT Next
INVARIANTS Pairs Triples
CHECK_DEADLOCK FALSE
