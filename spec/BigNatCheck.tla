---------------------------- MODULE BigNatCheck ----------------------------
(* Self-check of BigNat against native TLC integers: every operator, all     *)
(* operand pairs below 2^K (K = 12 by default), plus ring laws on seeded      *)
(* random 8-digit operands (values up to 2^64 that native integers cannot     *)
(* represent).                                                                *)
EXTENDS BigNat, Bitwise, TLC
CONSTANTS K, NRand
VARIABLES a, ph
Lim == 2 ^ K
\* fan-out: 16 seed states, each expanded by one TLC worker (initial states are generated single-threaded)
Init == a \in 0 .. 15 /\ ph = 0
Next == ph = 0 /\ ph' = 1 /\ a' \in {x \in 0 .. Lim - 1 : x % 16 = a}

PairOK(x, y) ==
  LET X == FromInt(x)  Y == FromInt(y) IN
  /\ ToInt(X) = x
  /\ ToInt(BAdd(X, Y)) = x + y
  /\ ToInt(BMul(X, Y)) = x * y
  /\ BCmp(X, Y) = (IF x > y THEN 1 ELSE IF x < y THEN -1 ELSE 0)
  /\ (x >= y => ToInt(BSub(X, Y)) = x - y)
  /\ ToInt(BAnd(X, Y, 2)) = (x & y)
  /\ ToInt(BOr(X, Y, 2)) = (x | y)
  /\ ToInt(BXor(X, Y, 2)) = (x ^^ y)
  /\ ToInt(BNot(X, 2)) = 65535 - x
  /\ BitLen(X) = (CHOOSE n \in 0 .. K : x < 2 ^ n /\ (n = 0 \/ x >= 2 ^ (n - 1)))
  /\ (y <= 18 => /\ ToInt(BShl(X, y)) = x * 2 ^ y
                 /\ ToInt(BShr(X, y)) = x \div 2 ^ y
                 /\ LowBitsNZ(X, y) = (x % 2 ^ y # 0)
                 /\ Bit(X, y) = (x \div 2 ^ y) % 2)
  /\ ToInt(BMulSmall(X, y)) = x * y
  /\ ToInt(Fix(X, 1)) = x % 256

AllPairs == ph = 0 \/ \A y \in 0 .. Lim - 1 : PairOK(a, y)

\* ring laws on wide operands
Rnd8 == [i \in 1 .. 8 |-> RandomElement(0 .. 255)]
WideOK(x, y, z) ==
  /\ BEq(BSub(BAdd(x, y), y), x)
  /\ BEq(BMul(x, y), BMul(y, x))
  /\ BEq(BMul(x, BAdd(y, z)), BAdd(BMul(x, y), BMul(x, z)))
  /\ BEq(BShr(BShl(x, 13), 13), x)
  /\ BEq(BShl(x, 8), BMul(x, <<0, 1>>))
  /\ BEq(BShl(x, 3), BMulSmall(x, 8))
  /\ BEq(BAdd(BAnd(x, y, 8), BOr(x, y, 8)), BAdd(x, y))
  /\ BEq(BXor(x, y, 8), BSub(BOr(x, y, 8), BAnd(x, y, 8)))
  /\ BCmp(BAdd(x, One), x) = 1
  /\ BitLen(BShl(x, 5)) = (IF IsZero(x) THEN 0 ELSE BitLen(x) + 5)
Wide == ph = 0 \/ a >= NRand \/ LET x == Rnd8  y == Rnd8  z == Rnd8 IN WideOK(x, y, z)
=============================================================================
