------------------------------- MODULE K_Reduce -------------------------------
(***************************************************************************)
(* Bag model of reduction trees (property C09, design level).  Every lane    *)
(* holds a bag of tokens (a sequence of lane numbers); the combining          *)
(* operation is bag union (concatenation).  A reduction tree is correct iff   *)
(* the bag delivered as the result contains every token of the register       *)
(* exactly once - no lane skipped, none counted twice.                        *)
(*  Generic : detail::reduce with split_high (xsimd_generic_math.hpp:2081-2105)*)
(*            for every lane count n in {2, 4, ..., 64}                        *)
(*  Sse2Max : reduce_max/reduce_min for 8- and 16-bit lanes (xsimd_sse2.hpp    *)
(*            :1255-1298) as byte-granular shuffles of a 128-bit register       *)
(***************************************************************************)
EXTENDS Integers, Sequences, FiniteSets, TLC
VARIABLES n, v, lvl, model
kvars == <<n, v, lvl, model>>
IsPerm(bag, k) == Len(bag) = k /\ {bag[i] : i \in 1 .. Len(bag)} = 0 .. k - 1
\* ---- generic halving ---------------------------------------------------------------------------------------
SplitHigh(N, i) == IF i >= N THEN i % 2 ELSE i + N
GenericStep == /\ model = "generic" /\ lvl > 1
               /\ v' = [i \in 0 .. n - 1 |-> v[SplitHigh(lvl \div 2, i)] \o v[i]]     \* op(split, self)
               /\ lvl' = lvl \div 2 /\ UNCHANGED <<n, model>>
\* ---- sse2 reduce_max, byte-granular: register of 16 bytes, lanes of sz bytes (1 or 2) ------------------------------
\* each step: acc' = max(acc, shuffled(acc)) lane-wise; a byte-lane holds the bag of the lane it belongs to.
Dword32(src, w, x, y, z) == [b \in 0 .. 15 |-> src[4 * (<<w, x, y, z>>[(b \div 4) + 1]) + (b % 4)]]   \* _mm_shuffle_epi32
ShufLo16(src, w, x, y, z) == [b \in 0 .. 15 |-> IF b < 8 THEN src[2 * (<<w, x, y, z>>[(b \div 2) + 1]) + (b % 2)] ELSE src[b]]
Srl16by8(src) == [b \in 0 .. 15 |-> IF b % 2 = 0 THEN src[b + 1] ELSE <<>>]                             \* (u16 >> 8): low byte <- high byte
Comb(acc, st) == [b \in 0 .. 15 |-> acc[b] \o st[b]]
Sse2Step == /\ model \in {"sse2max8", "sse2max16"} /\ lvl > 0
            /\ v' = CASE lvl = 4 -> Comb(v, Dword32(v, 2, 3, 0, 0))
                      [] lvl = 3 -> Comb(v, Dword32(v, 1, 0, 0, 0))
                      [] lvl = 2 -> Comb(v, ShufLo16(v, 1, 0, 0, 0))
                      [] lvl = 1 -> IF model = "sse2max8" THEN Comb(v, Srl16by8(v)) ELSE v
            /\ lvl' = lvl - 1 /\ UNCHANGED <<n, model>>
Init == \/ /\ model = "generic" /\ n \in {2, 4, 8, 16, 32, 64} /\ lvl = n /\ v = [i \in 0 .. n - 1 |-> <<i>>]
        \/ /\ model = "sse2max8" /\ n = 16 /\ lvl = 4 /\ v = [b \in 0 .. 15 |-> <<b>>]
        \/ /\ model = "sse2max16" /\ n = 8 /\ lvl = 4 /\ v = [b \in 0 .. 15 |-> <<b \div 2>>]
Next == GenericStep \/ Sse2Step
\* max/min are idempotent: a token may be met several times, but none may be missing; add-like trees need exactly once
ResultOK ==
  /\ (model = "generic" /\ lvl = 1 => IsPerm(v[0], n))
  /\ (model \in {"sse2max8", "sse2max16"} /\ lvl = 0 => {v[0][i] : i \in 1 .. Len(v[0])} = 0 .. n - 1)
=============================================================================
