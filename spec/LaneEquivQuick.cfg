INIT Init
NEXT Next
INVARIANTS Equiv16
CHECK_DEADLOCK FALSE
