------------------------------- MODULE T_Loops -------------------------------
(* Trace specification for C14: one event per (function, type, register width,  *)
(* tick vector) observed on the real code under the loop-tick hook; a watchdog   *)
(* timeout or a fault is an event without action.                                *)
EXTENDS Loops, Json, IOUtils
VARIABLE l
Log == ndJsonDeserialize(IOEnv.TRACE)
Init == /\ l = 1 /\ loop = [fn |-> "", t |-> "", ticks |-> <<>>]
        /\ TLCSet(1, 0) /\ TLCSet(2, 0) /\ TLCSet(3, 0) /\ TLCSet(4, 0)
Rej(e, why) == /\ PrintT("REJECT id=" \o ToString(e.id) \o " k=" \o e.k \o " op=" \o e.op \o " t=" \o e.t \o " lanes={} archs=" \o ToString(e.archs)
                         \o " why=" \o why \o " ticks=" \o (IF "ticks" \in DOMAIN e THEN ToString(e.ticks) ELSE "-") \o " known=-")
               /\ TLCSet(2, TLCGet(2) + 1) /\ UNCHANGED loop
Step ==
  /\ l <= Len(Log)
  /\ LET e == Log[l] IN
     IF e.k = "lp" THEN (IF CallOK(e.op, e.t, e.ticks) THEN CallWith(e.op, e.t, e.ticks) /\ TLCSet(1, TLCGet(1) + 1) /\ TLCSet(3, TLCGet(3) + e.n)
                         ELSE Rej(e, "iteration-bound"))
     ELSE IF e.k = "ret" THEN UNCHANGED loop /\ TLCSet(1, TLCGet(1) + 1) /\ TLCSet(3, TLCGet(3) + e.n)       \* a call without loops returned
     ELSE Rej(e, IF e.k = "fault" /\ e.sig = 14 THEN "timeout" ELSE "fault")
  /\ l' = l + 1 /\ TLCSet(4, l)
Next == Step
Accepted == /\ PrintT("STATS events=" \o ToString(Len(Log)) \o " consumed=" \o ToString(TLCGet(4)) \o " accepted=" \o ToString(TLCGet(1))
                       \o " rejected=" \o ToString(TLCGet(2)) \o " lanes=" \o ToString(TLCGet(3)))
            /\ TLCGet(4) = Len(Log)
=============================================================================
