------------------------------- MODULE T_Cpuid -------------------------------
(* Trace specification for property C15: detection events recorded from the    *)
(* real detail::supported_arch()/available_architectures() under injected      *)
(* CPUID/XGETBV configurations, cache events, and dispatch events.              *)
EXTENDS Cpuid, Json, IOUtils
D == INSTANCE Dispatch WITH ArchUniverse <- 1 .. NA, MaxLen <- 8, walk <- 0, avail <- 0
VARIABLE l
Log == ndJsonDeserialize(IOEnv.TRACE)
\* a: [bits lo, bits mid, bits hi, os byte, noise]
CfgOf(a) == [bits |-> a[1] + 256 * a[2] + 65536 * a[3], osxsave |-> a[4] % 2 = 1, x1 |-> (a[4] \div 2) % 2 = 1,
             x2 |-> (a[4] \div 4) % 2 = 1, x567 |-> (a[4] \div 8) % 2 = 1]
FlagsOf(r, off) == [A \in ArchSet |-> r[off + AIdx(A)] = 1]
RejectLine(e, why) == "REJECT id=" \o ToString(e.id) \o " k=" \o e.k \o " op=" \o e.op \o " t=" \o e.t \o " lanes={} archs=" \o ToString(e.archs)
                      \o " why=" \o why \o " cfg=" \o ToString(e.a) \o " known=-"
Init0 == /\ l = 1 /\ cpu = MkCfg(0, [osxsave |-> FALSE, x1 |-> FALSE, x2 |-> FALSE, x567 |-> FALSE]) /\ cache = None /\ ret = None /\ ph = 1
         /\ TLCSet(1, 0) /\ TLCSet(2, 0) /\ TLCSet(3, 0) /\ TLCSet(4, 0)
Rej(e, why) == /\ PrintT(RejectLine(e, why)) /\ TLCSet(2, TLCGet(2) + 1) /\ UNCHANGED <<cpu, cache, ret>>
Acc == TLCSet(1, TLCGet(1) + 1) /\ TLCSet(3, TLCGet(3) + 1)
WhyDetect(c, fl) == IF ~OnlyIf(c, fl) THEN "onlyif:" \o ToString({A \in ArchSet : fl[A] /\ ~Avail(A, c)})
                    ELSE IF ~NoVexWithoutOsxsave(c, fl) THEN "osxsave" ELSE IF ~Monotone(c, fl) THEN "monotone" ELSE "ok"
Step ==
  /\ l <= Len(Log)
  /\ LET e == Log[l] IN
     CASE e.k = "cpu" /\ e.op = "detect" ->
            LET c == CfgOf(e.a)  f1 == FlagsOf(e.r, 0)  f2 == FlagsOf(e.r, 23)  f3 == FlagsOf(e.r, 46) IN
            IF ~HwPresentable(c) THEN Rej(e, "not-presentable")
            ELSE IF f1 # f2 \/ f1 # f3 THEN Rej(e, "views-differ")
            ELSE IF DetectOK(c, f1) THEN (cpu' = c /\ ret' = <<f1>> /\ UNCHANGED cache) /\ Acc   \* cache bypassed by the hook
            ELSE Rej(e, WhyDetect(c, f1))
       [] e.k = "cpu" /\ e.op = "cached" ->
            \* first call: any DetectOK result is stored.  Later calls return the stored detection (the shipped function-local static) - or,
            \* C15 not demanding a cache, a fresh correct detection of what the hardware presents now; anything else (a stale mixture,
            \* a cache that was overwritten with something the CPU never presented) is rejected
            LET c == CfgOf(e.a)  f1 == FlagsOf(e.r, 0) IN
            IF cache = None
            THEN IF DetectOK(c, f1) THEN ChangeThenDetect(c, f1) /\ Acc ELSE Rej(e, WhyDetect(c, f1))
            ELSE IF <<f1>> = cache THEN ChangeThenDetect(c, f1) /\ Acc
            ELSE IF DetectOK(c, f1) THEN (cpu' = c /\ ret' = <<f1>> /\ UNCHANGED cache) /\ Acc
            ELSE Rej(e, "cache-changed")
       [] e.k = "disp" ->
            LET fl == [i \in 1 .. NA |-> e.r[17 + i] = 1]
                \* third argument: its value category (0 const lvalue, 1 lvalue, 2 rvalue) as passed by the caller / as bound by the functor
                args == <<e.b[1] + 256 * e.b[2], e.b[3] + 256 * e.b[4], e.b[5] % 3>>
                seen == <<e.r[14] + 256 * e.r[15], e.r[16] + 256 * e.r[17], e.scat>>
                rv == e.r[10] + 256 * e.r[11] + 65536 * e.r[12]
            IN IF e.op = "Ldef" /\ ~D!DefaultListOK(e.list, e.best) THEN Rej(e, "default-list-not-best-first")
               ELSE IF e.r[13] = 0 /\ D!DispatchOutcomeOK(e.list, fl, e.r[1], e.r[2], args, seen, rv)
               THEN Acc /\ UNCHANGED <<cpu, cache, ret>>
               ELSE Rej(e, "dispatch")
       [] OTHER -> Rej(e, "no-action")
  /\ l' = l + 1 /\ TLCSet(4, l) /\ UNCHANGED ph
Accepted == /\ PrintT("STATS events=" \o ToString(Len(Log)) \o " consumed=" \o ToString(TLCGet(4)) \o " accepted=" \o ToString(TLCGet(1))
                       \o " rejected=" \o ToString(TLCGet(2)) \o " lanes=" \o ToString(TLCGet(3)))
            /\ TLCGet(4) = Len(Log)
=============================================================================
