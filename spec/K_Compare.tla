------------------------------ MODULE K_Compare ------------------------------
(***************************************************************************)
(* Kernel refinement (properties C01, C03): the EMULATED integer comparisons   *)
(* - the place where the independent seeded changes of every round clustered    *)
(* (R4-C01-2, R4-C03-2, R4-C13-2, C01-1, C03-1, R2-C03-2) - transcribed over     *)
(* modelled primitives at reduced width and checked against the scalar            *)
(* predicate for EVERY operand pair.                                              *)
(*                                                                              *)
(*  Lt64S   sse2 signed 64-bit lt without pcmpgtq (xsimd_sse2.hpp:966-975):        *)
(*          sign of ((a & ~b) | (~(a ^ b) & (a - b))), spread with psrad 31 over     *)
(*          each 32-bit half and pshufd 0xF5 (the HIGH half decides both halves);     *)
(*          here W = 8 made of two 4-bit halves                                        *)
(*  Lt64U   the unsigned form: both operands xor 2^(W-1) first (973-1002)              *)
(*  LtU     unsigned lt of narrower lanes through the signed compare after xor          *)
(*          with the sign bit (990-1001)                                                  *)
(*  Cmp16   avx512f/cd/dq comparison of 16-bit lanes inside 32-bit words                  *)
(*          (xsimd_avx512f.hpp:144-215): the low lane is moved to the top of the word      *)
(*          (<< 16, signed) or isolated by a mask, the high lane is isolated by a mask,     *)
(*          both compared as 32-bit values, the two 16-bit result masks interleaved           *)
(*          (morton); here a word = two 4-bit lanes, every predicate EQ NE LT LE GT GE,        *)
(*          signed and unsigned                                                               *)
(*  Variant "nomask" = the high-lane operands are not masked (seeded R4-C13-2),                *)
(*  variant "noshift" = the signed low lane is not shifted to the top (seeded R4-C03-2):        *)
(*  K_CompareBroken.cfg checks that the model refutes both (must be violated).                   *)
(***************************************************************************)
EXTENDS Integers, TLC
I == INSTANCE IntLane
CONSTANT Variant           \* "shipped" | "nomask" | "noshift"
VARIABLES a, ph
W == 8   M == 256   H == 4   HM == 16                  \* lane of W bits = two halves of H bits
ANDb(x, y) == I!AndI(W, x, y)
ORb(x, y) == I!OrI(W, x, y)
XORb(x, y) == I!XorI(W, x, y)
NOTb(x) == M - 1 - x
SUB(x, y) == (x - y) % M
SV(w, x) == I!ToS(w, x)
\* psrad (H-1) on each half: a half becomes all ones iff its top bit is set; pshufd 0xF5: both halves := the high half
SpreadHigh(x) == IF (x \div HM) >= HM \div 2 THEN M - 1 ELSE 0
Lt64S(x, y) == LET t1 == SUB(x, y)  t2 == XORb(x, y)  t3 == ANDb(NOTb(y), x)  t4 == ANDb(NOTb(t2), t1)  t5 == ORb(t3, t4)
               IN SpreadHigh(t5) # 0
Lt64U(x, y) == Lt64S(XORb(x, M \div 2), XORb(y, M \div 2))
LtU(x, y) == SV(W, XORb(x, M \div 2)) < SV(W, XORb(y, M \div 2))
\* ---- Cmp16 at reduced width: a word of W bits holds two lanes of H bits (lo = bits 0..H-1, hi = bits H..W-1) ----
Pred(op, x, y) == CASE op = "eq" -> x = y [] op = "ne" -> x # y [] op = "lt" -> x < y [] op = "le" -> x <= y [] op = "gt" -> x > y [] op = "ge" -> x >= y
Word(lo, hi) == lo + HM * hi
SHLH(x) == (x * HM) % M                                  \* << H inside the word
CmpS(op, x, y) == Pred(op, SV(W, x), SV(W, y))           \* vpcmpd  (signed words)
CmpU(op, x, y) == Pred(op, x, y)                         \* vpcmpud (unsigned words)
MaskLo == HM - 1   MaskHi == M - HM
\* result = <<lane lo, lane hi>> of the word
Cmp16S(op, wx, wy) ==
  LET lo == IF Variant = "noshift" THEN CmpS(op, ANDb(wx, MaskLo), ANDb(wy, MaskLo))
            ELSE CmpS(op, SHLH(ANDb(wx, MaskLo)), SHLH(ANDb(wy, MaskLo)))
      hi == IF Variant = "nomask" THEN CmpS(op, wx, wy) ELSE CmpS(op, ANDb(wx, MaskHi), ANDb(wy, MaskHi))
  IN <<lo, hi>>
Cmp16U(op, wx, wy) ==
  LET lo == CmpU(op, ANDb(wx, MaskLo), ANDb(wy, MaskLo))
      hi == IF Variant = "nomask" THEN CmpU(op, wx, wy) ELSE CmpU(op, ANDb(wx, MaskHi), ANDb(wy, MaskHi))
  IN <<lo, hi>>
Ops == {"eq", "ne", "lt", "le", "gt", "ge"}
Init == a \in 0 .. 15 /\ ph = 0
Next == ph = 0 /\ ph' = 1 /\ a' \in {x \in 0 .. 255 : x % 16 = a}
Wide64OK == ph = 0 \/ \A y \in 0 .. 255 :
  /\ Lt64S(a, y) = (SV(W, a) < SV(W, y))
  /\ Lt64U(a, y) = (a < y)
  /\ LtU(a, y) = (a < y)
\* the word a = (lo, hi) against every word y: each lane's answer is the scalar predicate of ITS OWN two lanes
Cmp16OK == ph = 0 \/ \A y \in 0 .. 255, op \in Ops :
  LET alo == a % HM  ahi == a \div HM  ylo == y % HM  yhi == y \div HM IN
  /\ Cmp16S(op, a, y) = <<Pred(op, SV(H, alo), SV(H, ylo)), Pred(op, SV(H, ahi), SV(H, yhi))>>
  /\ Cmp16U(op, a, y) = <<Pred(op, alo, ylo), Pred(op, ahi, yhi)>>
=============================================================================
