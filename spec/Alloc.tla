-------------------------------- MODULE Alloc --------------------------------
(***************************************************************************)
(* aligned_allocator (property C18).  State: heap = [live, freed]; live is   *)
(* a set of blocks [base, size, align] (base and size are BigNat digit        *)
(* sequences so that real 64-bit pointers can be judged), freed the set of    *)
(* bases already released.  Every action has the observed outcome explicit:   *)
(* the design-level model (AllocModel.tla) quantifies it over a small address *)
(* space, the trace specification T_Alloc binds it to what the real           *)
(* allocator returned.                                                        *)
(***************************************************************************)
EXTENDS BigNat, FiniteSets, TLC
VARIABLE heap
SizeMaxBits == 64
\* n * sizeof(T) is representable in size_t
Representable(n, sz) == BitLen(BMulSmall(n, sz)) <= SizeMaxBits
Bytes(n, sz) == BMulSmall(n, sz)
IsPow2Small(a) == a \in {8, 16, 32, 64, 128, 256, 512, 1024, 2048, 4096}
AlignedTo(p, a) == BModSmall(p, a) = 0
\* half-open ranges [b1, b1+s1) and [b2, b2+s2) do not meet (empty blocks occupy their base address)
Disjoint(b1, s1, b2, s2) ==
  LET e1 == BAdd(b1, IF IsZero(s1) THEN One ELSE s1)  e2 == BAdd(b2, IF IsZero(s2) THEN One ELSE s2)
  IN BLe(e1, b2) \/ BLe(e2, b1)

\* allocate(n) reports failure ...
AllocFail(sz, align, n) == UNCHANGED heap
\* ... or returns pointer p with `usable' writable bytes behind it
AllocOKWith(sz, align, n, p, usable) ==
  /\ Representable(n, sz)                                  \* otherwise only bad_alloc is allowed
  /\ ~IsZero(p)
  /\ AlignedTo(p, align)
  /\ BLe(Bytes(n, sz), usable)                             \* at least n*sizeof(T) writable bytes
  /\ \A b \in heap.live : Disjoint(p, Bytes(n, sz), b.base, b.size)
  /\ heap' = [heap EXCEPT !.live = @ \cup {[base |-> Norm(p), size |-> Norm(Bytes(n, sz)), align |-> align]}]
DeallocWith(p, intact) ==
  /\ \E b \in heap.live : b.base = Norm(p)
  /\ intact                                               \* nobody scribbled over the block while it was live
  /\ heap' = [live |-> {b \in heap.live : b.base # Norm(p)}, freed |-> heap.freed \cup {Norm(p)}]

HeapInv == /\ \A b1, b2 \in heap.live : b1 # b2 => Disjoint(b1.base, b1.size, b2.base, b2.size)
           /\ \A b \in heap.live : AlignedTo(b.base, b.align)

\* ---- stateless helpers ---------------------------------------------------------------------------------
\* get_alignment_offset(p, size, block): least k <= size with (p + k*sz) mod (block*sz) = 0, else size.
\* block = 1 with p not a multiple of sz is left unconstrained (a misaligned T* is outside the object model).
OffsetSpec(pres, sz, size, block) ==       \* pres = p mod (block*sz), small integers
  LET ks == {k \in 0 .. size : (pres + k * sz) % (block * sz) = 0}
  IN IF ks = {} THEN size ELSE CHOOSE k \in ks : \A j \in ks : k <= j
\* K_AllocOffset: transcription of xsimd_aligned_allocator.hpp:316-341
OffsetShipped(p, sz, size, block) ==
  IF block = 1 THEN 0
  ELSE IF p % sz # 0 THEN size
  ELSE LET m == block - 1  v == (block - ((p \div sz) % block)) % block IN IF v < size THEN v ELSE size
=============================================================================
