CONSTANTS AddrMax = 40
 MaxOps = 5
 MaxLive = 3
 Aligns = {8, 16}
 Sizes = {0, 1, 8, 9}
INIT Init
NEXT Next
INVARIANT Inv
CHECK_DEADLOCK FALSE
