------------------------------ MODULE T_Geometry ------------------------------
(* Trace specification for C20: the table dumped from the real headers          *)
(* (harness/archdump.cpp) is replayed record by record; every record must        *)
(* satisfy the Geometry invariants, list records are judged against the          *)
(* architecture records accumulated so far.                                       *)
EXTENDS Geometry, Json, IOUtils
VARIABLES l, archs, lists
Log == ndJsonDeserialize(IOEnv.TRACE)
Init0 == /\ l = 1 /\ archs = <<>> /\ lists = <<>>
         /\ TLCSet(1, 0) /\ TLCSet(2, 0) /\ TLCSet(3, 0) /\ TLCSet(4, 0)
Acc == TLCSet(1, TLCGet(1) + 1) /\ TLCSet(3, TLCGet(3) + 1)
Rej(e, why) == PrintT("REJECT id=" \o ToString(l) \o " k=" \o e.k \o " op=" \o why \o " t=- lanes={} archs=<<>> rec=" \o ToString(e) \o " known=-")
               /\ TLCSet(2, TLCGet(2) + 1)
Put(f, k, v) == [x \in DOMAIN f \cup {k} |-> IF x = k THEN v ELSE f[x]]
Step ==
  /\ l <= Len(Log)
  /\ LET e == Log[l] IN
     CASE e.k = "arch" -> /\ (IF ArchRecOK(e) THEN Acc ELSE Rej(e, "arch"))
                          /\ archs' = Put(archs, e.name, e) /\ UNCHANGED lists
       [] e.k = "geom" -> (IF e.arch \in DOMAIN archs /\ GeomRecOK(e) THEN Acc ELSE Rej(e, "geom")) /\ UNCHANGED <<archs, lists>>
       [] e.k = "fgeom" -> (IF FGeomRecOK(e) THEN Acc ELSE Rej(e, "fgeom")) /\ UNCHANGED <<archs, lists>>
       [] e.k = "sized" -> (IF SizedRecOK(e) THEN Acc ELSE Rej(e, "sized")) /\ UNCHANGED <<archs, lists>>
       [] e.k = "list" -> /\ (IF ListRecOK(e, archs) THEN Acc ELSE Rej(e, "list"))
                          /\ lists' = Put(lists, e.name, e.archs) /\ UNCHANGED archs
       [] e.k = "defaults" ->
            \* best_arch is the head of the supported list, and the default architecture is the best one
            (IF "supported" \in DOMAIN lists /\ e.best_arch = lists["supported"][1] /\ e.default_arch = e.best_arch /\ e.x86_arch = e.best_arch
             THEN Acc ELSE Rej(e, "defaults")) /\ UNCHANGED <<archs, lists>>
       [] OTHER -> Rej(e, "no-action") /\ UNCHANGED <<archs, lists>>
  /\ l' = l + 1 /\ TLCSet(4, l)
Accepted == /\ PrintT("STATS events=" \o ToString(Len(Log)) \o " consumed=" \o ToString(TLCGet(4)) \o " accepted=" \o ToString(TLCGet(1))
                       \o " rejected=" \o ToString(TLCGet(2)) \o " lanes=" \o ToString(TLCGet(3)))
            /\ TLCGet(4) = Len(Log)
=============================================================================
