-------------------------------- MODULE T_Math --------------------------------
(* Trace specification for the elementary functions: special values, domains    *)
(* and symmetries (C12: kinds sp1, sp2, pair, same), lane independence (C13:      *)
(* kind mix), and scalar-versus-batch agreement (C17: kind sv).  Rows of 64 bytes, *)
(* t in {f32, f64}; relational events carry two result rows (r, r2).              *)
EXTENDS Accuracy, Json, IOUtils, TLC
VARIABLES l, last
Log == ndJsonDeserialize(IOEnv.TRACE)
Fm(t) == IF t = "f32" THEN F32 ELSE F64
NB(t) == IF t = "f32" THEN 4 ELSE 8
NL(t) == 64 \div NB(t)
Lane(row, t, i) == SubSeq(row, i * NB(t) + 1, (i + 1) * NB(t))
\* two results of the same function on the same value may differ in last-place bits only (C13 mixed vs broadcast, C17 scalar vs
\* batch): ordinal distance <= 2 B + 1 (B2 + 1 half ulps, rounded up) and the same special class
\* magnitude below 16 * MIN (the graceful-underflow zone of C10/C11)
Tiny(f, y) == LET d == Dec(f, y) IN d.cls \in {"zero", "sub"} \/ (d.cls = "normal" /\ d.ef <= 4)
\* infinite, or finite of magnitude >= 2^(emax-k): k = 2 covers everything from MAX/4 up, k = 4 everything from MAX/16 up (both on the lenient side)
Big(f, y, k) == LET d == Dec(f, y) IN d.cls = "inf" \/ (d.cls = "normal" /\ d.ef >= 2 * Bias(f) - k)
CloseOK(fn, f, x, y1, y2) ==
  LET c1 == Class(f, y1)  c2 == Class(f, y2) IN
  IF Class(f, x) \in {"sub", "inf", "nan"} THEN TRUE        \* C10/C11 bound the error for finite non-subnormal arguments only (specials: C12)
  ELSE IF c1 = "nan" \/ c2 = "nan" THEN c1 = c2
  ELSE IF Tiny(f, y1) /\ Tiny(f, y2) THEN TRUE             \* both in the underflow zone: graceful degradation, not an ulp bound
  ELSE IF Big(f, y1, 2) \/ Big(f, y2, 2)                    \* one result at or beyond about MAX/4: the overflow zone of C10/C11 - the other must be
       THEN Big(f, y1, 4) /\ Big(f, y2, 4) /\ Dec(f, y1).s = Dec(f, y2).s      \* +-inf or >= MAX/16 with the same sign, not within ulps
  ELSE IF fn = "lgamma" /\ Dec(f, y1).ef < Bias(f) /\ Dec(f, y2).ef < Bias(f)
       THEN \* lgamma's bound is in ulps of max(|result|, 1): below 1 compare |y1 - y2| with (2B+1) half-ulps of 1.0 = (2B+1) * 2^-p
            LET d1 == Dec(f, y1)  d2 == Dec(f, y2)
                diff == IF d1.m = <<>> THEN [m |-> d2.m, e |-> d2.e, zero |-> d2.m = <<>>]
                        ELSE IF d2.m = <<>> THEN [m |-> d1.m, e |-> d1.e, zero |-> FALSE]
                        ELSE AddExactP(100000, d1.s, d1.m, d1.e, 1 - d2.s, d2.m, d2.e)
            IN diff.zero \/ CmpScaled(diff.m, diff.e, FromInt(B2(fn, f) + 1), -Prec(f)) <= 0
  ELSE BLe(OrdinalDistance(f, y1, y2), FromInt(B2(fn, f) + 1))
(***************************************************************************)
(* Known deviation (known_findings.json, id lgamma-tiny-negative): for a     *)
(* negative argument so small that q * sin(pi q) = pi q^2 underflows, the      *)
(* reflection formula of lgamma (xsimd_generic_math.hpp, negative() /          *)
(* large_negative()) takes log(0) and returns +inf although the exact value    *)
(* (about -log|x|) is an ordinary number.  A rejected lgamma lane is classified  *)
(* as this finding only if the argument is in that range AND the batch result   *)
(* is exactly +inf.                                                             *)
(***************************************************************************)
LgammaTinyNegative(f, x, r) ==
  LET d == Dec(f, x) IN d.s = 1 /\ d.cls = "normal" /\ d.ef < Bias(f) - (IF f.M = 23 THEN 60 ELSE 508) /\ Dec(f, r).s = 0 /\ ~IsNaN(f, r)
\* Known deviations next to the poles of gamma (DESIGN.md section 5.2/8, known_findings.json):
\*  lgamma-near-negint : float lgamma within a few ulps of a negative integer reaches about 13 ulp (bound 8)
\*  tgamma-pole-flush  : float tgamma within a few ulps of -34, -35, -36 flushes to zero although the exact value is >= 4 * FLT_MIN
NearNegInt(f, x, k) == LET d == Dec(f, x)  n == RoundInt(f, x, "even") IN
                       d.s = 1 /\ d.cls = "normal" /\ n # NaNRes /\ ~IsZeroF(f, n) /\ BLe(OrdinalDistance(f, x, n), FromInt(k))
LgammaNearNegInt(f, x, r) == f.M = 23 /\ NearNegInt(f, x, 16) /\ IsFinite(f, r)
\*  lgamma-reflection-cancel : float lgamma for -16 < x <= -4 where the exact result is small (|lgamma x| < 4, i.e. next to the two zero
\*                   crossings |Gamma(x)| = 1 of every interval (-n-1, -n)): the reflection formula subtracts two terms of magnitude about
\*                   lgamma|x| = 6 .. 28, each good to an ulp of ITS size, so the absolute error is up to 16 ulp of 1.0 (bound: 8 ulp of
\*                   max(|result|, 1)); found by the exhaustive float32 selector sweep (worst: lgamma(-7.9999723f), 13.2 ulp).  Classified by
\*                   the argument range, the size of the exact result AND the absolute error (at most 2^-19 = 16 ulp of 1.0).
LgammaReflectionCancel(f, x, r, ent) ==
  LET dx == Dec(f, x)  dr == Dec(f, r)  p == Prec(f) IN
  /\ f.M = 23 /\ dx.s = 1 /\ dx.cls = "normal" /\ dx.ef \in {Bias(f) + 2, Bias(f) + 3}
  /\ ent.k = 0 /\ ent.e <= 1 /\ dr.cls \in {"zero", "sub", "normal"}
  /\ LET diff == IF dr.m = <<>> THEN [m |-> ent.m, e |-> ent.e - p - 7, zero |-> FALSE]
                  ELSE AddExactP(100000, dr.s, dr.m, dr.e, 1 - ent.s, ent.m, ent.e - p - 7)
     IN diff.zero \/ CmpScaled(diff.m, diff.e, <<1>>, -19) <= 0
TgammaPoleFlush(f, x, r) == f.M = 23 /\ NearNegInt(f, x, 16) /\ FLe(f, x, Enc(f, 1, Bias(f) + 5, <<0, 0, 6>>)) /\ IsZeroF(f, r)      \* x <= -33.5
\*  trig-near-zero : double sin/cos/tan at arguments |x| >= 1 where the exact result is below 2^-40 (tan: or above 2^40), i.e. next to
\*                   a multiple of pi/2: the three-term Cody-Waite reduction keeps an absolute, not a relative, accuracy
\*                   (observed: 5 ulp .. 1.8e5 ulp depending on how close x is to the multiple of pi/2; classified by the absolute error bound below)
EntOf(e, i) == [k |-> e.xk[i + 1], s |-> e.xs[i + 1], e |-> e.xe[i + 1], m |-> Norm(SubSeq(e.xm, 8 * i + 1, 8 * i + 8))]
TrigNearZero(fn, f, x, r, ent) ==
  /\ fn \in {"sin", "cos", "tan"} /\ f.M = 52 /\ Dec(f, x).ef >= Bias(f) /\ ent.k = 0
  /\ (ent.e <= -40 \/ (fn = "tan" /\ ent.e >= 40))
  \* the mechanism, not a number of ulps: the reduced argument carries an ABSOLUTE error of at most |x| * 2^-98 (three 33-bit pieces of pi/2),
  \* which is also the absolute error of a tiny sin/cos/tan; next to a pole of tan the error is that of 1/c: |x| * 2^-98 * tan^2.
  \* (The closer x is to the multiple of pi/2 the larger the RELATIVE error: cos(-45.553093477052) = -6.1898063659e-19 has 1.8e5 ulp.)
  /\ LET p == Prec(f)  dr == Dec(f, r)  dx == Dec(f, x) IN
     /\ dr.cls = "normal" /\ dr.s = ent.s
     /\ LET diff == AddExactP(100000, dr.s, dr.m, dr.e, 1 - ent.s, ent.m, ent.e - p - 7) IN
        diff.zero \/ CmpScaled(diff.m, diff.e, dx.m, dx.e - 98 + (IF ent.e >= 40 THEN 2 * ent.e + 2 ELSE 0)) <= 0
KnownOf(e, bad) ==
  IF e.k \notin {"sv", "mix", "acc"} \/ bad = {} \/ bad = {-1} THEN "-"
  ELSE LET f == Fm(e.t)
           tiny(i) == LgammaTinyNegative(f, Lane(e.a, e.t, i), Lane(e.r, e.t, i))
           near(i) == LgammaNearNegInt(f, Lane(e.a, e.t, i), Lane(e.r, e.t, i))
           cancel(i) == e.k = "acc" /\ LgammaReflectionCancel(f, Lane(e.a, e.t, i), Lane(e.r, e.t, i), EntOf(e, i))
       IN
       IF e.op = "lgamma" /\ \A i \in bad : tiny(i) THEN "lgamma-tiny-negative"
       ELSE IF e.op = "lgamma" /\ \A i \in bad : tiny(i) \/ near(i) THEN "lgamma-near-negint"
       ELSE IF e.op = "lgamma" /\ \A i \in bad : tiny(i) \/ near(i) \/ cancel(i) THEN "lgamma-reflection-cancel"
       ELSE IF e.op = "tgamma" /\ \A i \in bad : TgammaPoleFlush(f, Lane(e.a, e.t, i), Lane(e.r, e.t, i)) THEN "tgamma-pole-flush"
       ELSE IF e.k = "acc" /\ \A i \in bad : TrigNearZero(e.op, f, Lane(e.a, e.t, i), Lane(e.r, e.t, i), EntOf(e, i)) THEN "trig-near-zero"
       ELSE "-"
\* The scalar overload xsimd::pow(float, float) is std::pow (xsimd_scalar.hpp: using std::pow), for which ISO C (F.10.4.4) fixes
\* pow(x, +-0) = 1 and pow(+1, y) = 1 even for a NaN operand.  C12 speaks about the architectures' batch kernels; an observation made
\* ONLY on the scalar pseudo-architecture may follow the C rule instead of NaN propagation.
LibmPowOne(fn, f, x, y, r) == fn = "pow" /\ (IsNaN(f, x) \/ IsNaN(f, y)) /\ (IsZeroF(f, y) \/ x = OneF(f)) /\ r = OneF(f)
Bad(e) ==
  LET f == Fm(e.t) IN
  CASE e.k = "sp1"  -> {i \in 0 .. NL(e.t) - 1 : ~SpecialOK(e.op, f, Lane(e.a, e.t, i), Lane(e.r, e.t, i))}
    [] e.k = "sp2"  -> {i \in 0 .. NL(e.t) - 1 : ~Special2OK(e.op, f, Lane(e.a, e.t, i), Lane(e.b, e.t, i), Lane(e.r, e.t, i))
                                                   /\ ~(e.archs = <<"scalar">> /\ LibmPowOne(e.op, f, Lane(e.a, e.t, i), Lane(e.b, e.t, i), Lane(e.r, e.t, i)))}
    [] e.k = "pair" -> {i \in 0 .. NL(e.t) - 1 : ~ParityOK(e.op, f, Lane(e.r, e.t, i), Lane(e.r2, e.t, i))}
    [] e.k = "same" -> {i \in 0 .. NL(e.t) - 1 : ~SameOK(f, Lane(e.r, e.t, i), Lane(e.r2, e.t, i))}
    [] e.k = "mix"  -> {i \in 0 .. NL(e.t) - 1 : ~(IF e.exact = 1 THEN SameOK(f, Lane(e.r, e.t, i), Lane(e.r2, e.t, i))
                                                    ELSE CloseOK(e.op, f, Lane(e.a, e.t, i), Lane(e.r, e.t, i), Lane(e.r2, e.t, i)))}
    [] e.k = "acc"  -> {i \in 0 .. NL(e.t) - 1 :
                         ~(~InScopeArg(f, Lane(e.a, e.t, i)) \/ ("b" \in DOMAIN e /\ ~InScopeArg(f, Lane(e.b, e.t, i))) \/
                           AccOK(e.op, f, Lane(e.a, e.t, i), Lane(e.r, e.t, i),
                                 [k |-> e.xk[i + 1], s |-> e.xs[i + 1], e |-> e.xe[i + 1], m |-> Norm(SubSeq(e.xm, 8 * i + 1, 8 * i + 8))], e.xyl[i + 1]))}
    [] e.k = "bc"   -> {i \in 0 .. NL(e.t) - 1 : ~SameOK(f, Lane(e.r, e.t, 0), Lane(e.r, e.t, i))}   \* broadcasting one value gives identical lanes (any NaN for a NaN)
    [] e.k = "sv"   -> {i \in 0 .. NL(e.t) - 1 : ~CloseOK(e.op, f, Lane(e.a, e.t, i), Lane(e.r, e.t, i), Lane(e.r2, e.t, i))}
    [] OTHER -> {-1}
RejectLine(e, bad) == "REJECT id=" \o ToString(e.id) \o " k=" \o e.k \o " op=" \o e.op \o " t=" \o e.t
                      \o " lanes=" \o ToString(bad) \o " archs=" \o ToString(e.archs) \o " known=" \o KnownOf(e, bad)
                      \o (IF bad = {} \/ bad = {-1} THEN "" ELSE LET i == CHOOSE j \in bad : \A k \in bad : j <= k IN
                            " lane=" \o ToString(i) \o " x=" \o (IF "a" \in DOMAIN e THEN ToString(Lane(e.a, e.t, i)) ELSE "-")
                            \o " y=" \o (IF "b" \in DOMAIN e THEN ToString(Lane(e.b, e.t, i)) ELSE "-")
                            \o " r=" \o ToString(Lane(e.r, e.t, i)) \o " r2=" \o (IF "r2" \in DOMAIN e THEN ToString(Lane(e.r2, e.t, i)) ELSE "-"))
Init == /\ l = 1 /\ last = <<>>
        /\ TLCSet(1, 0) /\ TLCSet(2, 0) /\ TLCSet(3, 0) /\ TLCSet(4, 0)
Step ==
  /\ l <= Len(Log)
  /\ LET e == Log[l]  bad == Bad(e) IN
     IF bad = {} THEN last' = <<e.k, e.op, e.t>> /\ TLCSet(1, TLCGet(1) + 1) /\ TLCSet(3, TLCGet(3) + NL(e.t))
     ELSE PrintT(RejectLine(e, bad)) /\ TLCSet(2, TLCGet(2) + 1) /\ UNCHANGED last
  /\ l' = l + 1 /\ TLCSet(4, l)
Next == Step
Accepted == /\ PrintT("STATS events=" \o ToString(Len(Log)) \o " consumed=" \o ToString(TLCGet(4)) \o " accepted=" \o ToString(TLCGet(1))
                       \o " rejected=" \o ToString(TLCGet(2)) \o " lanes=" \o ToString(TLCGet(3)))
            /\ TLCGet(4) = Len(Log)
=============================================================================
