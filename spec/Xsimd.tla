-------------------------------- MODULE Xsimd --------------------------------
(***************************************************************************)
(* The abstract SIMD machine behind xsimd's public API.                      *)
(*                                                                         *)
(* State                                                                     *)
(*   reg   : register file; each register holds one 64-byte ROW (one 512-bit *)
(*           register; narrower architectures process the row chunk by       *)
(*           chunk, so an element-wise action is the same on every ISA)      *)
(*   breg  : Boolean (batch_bool) registers: sequences of BOOLEAN            *)
(*   last  : ghost - name/type of the last action (readable TLC traces)      *)
(* Further state components (memory arena, allocator heap, CPUID source and  *)
(* detection cache, dispatcher walk, data-dependent loops) live in the       *)
(* modules Mem, Alloc, Cpuid, Dispatch, Loops which share this layering.     *)
(*                                                                         *)
(* Every action is written as  Act(args, r)  with the result r explicit      *)
(* ("...With" form): the design-level next-state relation existentially      *)
(* quantifies r over the value space (small constants), the trace            *)
(* specifications T_*.tla bind r to the value logged from the real code.     *)
(***************************************************************************)
EXTENDS LaneInt, LaneBool, LaneFloat, Reduce, Perm, TLC

VARIABLES reg, breg, last
xvars == <<reg, breg, last>>

\* ---- element types ---------------------------------------------------------
TypeTab == [i8  |-> [nb |-> 1, S |-> TRUE,  kind |-> "int"], u8  |-> [nb |-> 1, S |-> FALSE, kind |-> "int"],
            i16 |-> [nb |-> 2, S |-> TRUE,  kind |-> "int"], u16 |-> [nb |-> 2, S |-> FALSE, kind |-> "int"],
            i32 |-> [nb |-> 4, S |-> TRUE,  kind |-> "int"], u32 |-> [nb |-> 4, S |-> FALSE, kind |-> "int"],
            i64 |-> [nb |-> 8, S |-> TRUE,  kind |-> "int"], u64 |-> [nb |-> 8, S |-> FALSE, kind |-> "int"],
            f32 |-> [nb |-> 4, S |-> TRUE,  kind |-> "float"], f64 |-> [nb |-> 8, S |-> TRUE, kind |-> "float"]]
TypeNames == DOMAIN TypeTab
RowBytes == 64
NLanes(t) == RowBytes \div TypeTab[t].nb
LaneIdx(t) == 0 .. NLanes(t) - 1
\* lane i (0-based) of a row
Lane(row, t, i) == LET nb == TypeTab[t].nb IN SubSeq(row, i * nb + 1, i * nb + nb)
MaskLane(row, t, i) == \E k \in 1 .. TypeTab[t].nb : row[i * TypeTab[t].nb + k] # 0
NoRow == <<>>
RowOr(row, t, i) == IF row = NoRow THEN ZeroN(TypeTab[t].nb) ELSE Lane(row, t, i)

\* ---- element-wise integer action (C01, C07, C17) ---------------------------
\* lanes of the result that violate the lane relation; the action is enabled iff this set is empty,
\* and the conjunct for lane i mentions lane i only: lane independence is syntactic.
EwIntBad(op, t, a, b, c, imm, r) ==
  {i \in LaneIdx(t) :
     ~IntRel(op, TypeTab[t].S, Lane(a, t, i), RowOr(b, t, i), RowOr(c, t, i),
             IF b = NoRow THEN FALSE ELSE MaskLane(b, t, i), imm, Lane(r, t, i))}
EwIntWith(op, t, a, b, c, imm, r) ==
  /\ EwIntBad(op, t, a, b, c, imm, r) = {}
  /\ reg' = [reg EXCEPT ![0] = r, ![1] = a, ![2] = b, ![3] = c]
  /\ last' = <<op, t>>
  /\ UNCHANGED breg

\* classification of a set of rejected lanes against the named known deviations of LaneInt ("-" = none)
EwIntKnown(op, t, a, b, imm, r, bad) ==
  IF bad # {} /\ \A i \in bad : RotSignedShipped(op, TypeTab[t].S, Lane(a, t, i), RowOr(b, t, i), imm, Lane(r, t, i))
  THEN "rot-signed" ELSE "-"

\* two-result element-wise events (quotient row followed by remainder row)
Ew2IntBad(op, t, a, b, r) ==
  LET q == SubSeq(r, 1, RowBytes)  rm == SubSeq(r, RowBytes + 1, 2 * RowBytes) IN
  {i \in LaneIdx(t) :
     ~(op \in {"divmod", "op/%", "op/%="} /\ DivModRel(TypeTab[t].S, Lane(a, t, i), Lane(b, t, i), Lane(q, t, i), Lane(rm, t, i)))}
Ew2IntWith(op, t, a, b, r) ==
  /\ Ew2IntBad(op, t, a, b, r) = {}
  /\ reg' = [reg EXCEPT ![0] = r, ![1] = a, ![2] = b, ![3] = NoRow]
  /\ last' = <<op, t>>
  /\ UNCHANGED breg

\* ---- element-wise floating-point action (C02, C08, same-width conversions of C06, C17) --------------------------
FmtOfT(t) == IF t = "f32" THEN F32 ELSE F64
EwFloatLaneOK(op, t, a, b, c, r, i) ==
  LET f == FmtOfT(t) IN
  CASE op = "ldexp"            -> LdexpRel(f, Lane(a, t, i), Lane(b, t, i), Lane(r, t, i))
    [] op = "nearbyint_as_int" -> NearRel(f, Lane(a, t, i), TypeTab[t].nb, Lane(r, t, i))
    [] op = "to_int"           -> CvtRel("float", TRUE, Lane(a, t, i), "int", TRUE, TypeTab[t].nb, Lane(r, t, i))
    [] op = "to_float"         -> CvtRel("int", TRUE, Lane(a, t, i), "float", TRUE, TypeTab[t].nb, Lane(r, t, i))
    [] OTHER                   -> FloatRel(op, f, Lane(a, t, i), RowOr(b, t, i), RowOr(c, t, i), Lane(r, t, i))
EwFloatBad(op, t, a, b, c, r) == {i \in LaneIdx(t) : ~EwFloatLaneOK(op, t, a, b, c, r, i)}
EwFloatWith(op, t, a, b, c, r) ==
  /\ EwFloatBad(op, t, a, b, c, r) = {}
  /\ reg' = [reg EXCEPT ![0] = r, ![1] = a, ![2] = b, ![3] = c] /\ last' = <<op, t>> /\ UNCHANGED breg
EwFloatKnown(op, t, a, b, bad) ==
  IF op = "ldexp" /\ bad # {} /\ \A i \in bad : LdexpOutOfRange(FmtOfT(t), Lane(b, t, i)) THEN "ldexp-range" ELSE "-"
FrexpKnown(t, a, bad) == IF bad # {} /\ \A i \in bad : FrexpSpecialOperand(FmtOfT(t), Lane(a, t, i)) THEN "frexp-special" ELSE "-"
\* predicates isnan/isinf/...: one byte per lane
PredBad(op, t, a, r) == {i \in LaneIdx(t) : r[i + 1] # B2I(FloatPred(op, FmtOfT(t), Lane(a, t, i)))}
PredWith(op, t, a, r) == /\ PredBad(op, t, a, r) = {} /\ breg' = r /\ reg' = [reg EXCEPT ![1] = a] /\ last' = <<op, t>>
\* frexp: mantissa row followed by exponent row (same-width signed integers)
FrexpBad(t, a, r) == LET m == SubSeq(r, 1, RowBytes)  ex == SubSeq(r, RowBytes + 1, 2 * RowBytes) IN
                     {i \in LaneIdx(t) : ~FrexpRel(FmtOfT(t), Lane(a, t, i), Lane(m, t, i), Lane(ex, t, i))}
FrexpWith(t, a, r) == /\ FrexpBad(t, a, r) = {} /\ reg' = [reg EXCEPT ![0] = r, ![1] = a] /\ last' = <<"frexp", t>> /\ UNCHANGED breg

\* ---- conversions and bitwise_cast (C06): register-granular; the operand row is read cyclically -------------------------
CycLane(row, t, i) == Lane(row, t, i % NLanes(t))
CvtLaneOK(tf, tt, x, r) == CvtRel(TypeTab[tf].kind, TypeTab[tf].S, x, TypeTab[tt].kind, TypeTab[tt].S, TypeTab[tt].nb, r)
OutLane(r, tt, i) == SubSeq(r, i * TypeTab[tt].nb + 1, (i + 1) * TypeTab[tt].nb)
\* number of elements converted by each operation for register width w
CvtCount(op, tf, tt, w) == IF op \in {"batch_cast", "store_as", "store_as_al"} THEN w \div TypeTab[tf].nb ELSE w \div TypeTab[tt].nb
CvtBad(op, tf, tt, w, a, r) ==
  IF op = "broadcast_as" THEN {i \in 0 .. CvtCount(op, tf, tt, w) - 1 : ~CvtLaneOK(tf, tt, Lane(a, tf, 0), OutLane(r, tt, i))}
  ELSE {i \in 0 .. CvtCount(op, tf, tt, w) - 1 : ~CvtLaneOK(tf, tt, CycLane(a, tf, i), OutLane(r, tt, i))}
RECURSIVE CycBytes(_, _, _, _)
CycBytes(a, tf, i, n) == IF i = n THEN <<>> ELSE CycLane(a, tf, i) \o CycBytes(a, tf, i + 1, n)
\* bitwise_cast reproduces the register's bytes and casting back is the identity (r = cast bytes followed by the round trip)
BitCastOK(tf, w, a, r) == LET src == CycBytes(a, tf, 0, w \div TypeTab[tf].nb) IN r = src \o src
BitCastScalarOK(tf, tt, a, r) == LET x == Lane(a, tf, 0) IN TypeTab[tf].nb = TypeTab[tt].nb /\ r = x \o x
CvtWith(op, tf, tt, w, a, r) ==
  /\ IF op = "bitwise_cast" THEN (IF w = 0 THEN BitCastScalarOK(tf, tt, a, r) ELSE BitCastOK(tf, w, a, r))
     ELSE CvtBad(op, tf, tt, w, a, r) = {}
  /\ reg' = [reg EXCEPT ![0] = r, ![1] = a] /\ last' = <<op, tf, tt>> /\ UNCHANGED breg

\* ---- reductions (C09): register-granular, n = w / sizeof(T) lanes of the operand row ------------------------------------
RegLanes(a, t, n) == Seq1([i \in 1 .. n |-> Lane(a, t, i - 1)], n)
ReduceOK(op, t, xs, r) == IF TypeTab[t].kind = "float" THEN FloatReduceOK(op, FmtOfT(t), xs, r) ELSE IntReduceOK(op, TypeTab[t].S, xs, r)
\* haddp: matrix row i, lane j = operand row a lane (3 i + j) mod L, diagonal (j = i) from operand row b lane i mod L;
\* result lane i reduces row i
HaddRow(a, b, t, n, i) == Seq1([j \in 1 .. n |-> IF j - 1 = i THEN Lane(b, t, i % NLanes(t)) ELSE Lane(a, t, (3 * i + (j - 1)) % NLanes(t))], n)
HaddBad(t, n, a, b, r) == {i \in 0 .. n - 1 : ~ReduceOK("haddp", t, HaddRow(a, b, t, n, i), Lane(r, t, i))}
ReduceCond(op, t, n, a, b, r) == IF op = "haddp" THEN HaddBad(t, n, a, b, r) = {} ELSE ReduceOK(op, t, RegLanes(a, t, n), r)
ReduceUpd(op, t, a, r) == reg' = [reg EXCEPT ![0] = r, ![1] = a] /\ last' = <<op, t>> /\ UNCHANGED breg
ReduceWith(op, t, n, a, b, r) == ReduceCond(op, t, n, a, b, r) /\ ReduceUpd(op, t, a, r)

\* ---- data movement (C05): register-granular; lanes are byte strings, compared bit-exactly ------------------------------
RegSeq(a, t, n) == Seq1([i \in 1 .. n |-> Lane(a, t, i - 1)], n)
ZeroLane(t) == ZeroN(TypeTab[t].nb)
IdxSeq(b, t, n) == Seq1([i \in 1 .. n |-> ToInt(Lane(b, t, i - 1))], n)           \* run-time index batch (same-width unsigned lanes)
\* expected result register (sequence of lanes) of a data-movement operation; idx = compile-time mask / count (sequence)
PermExpected(op, t, n, a, b, imm, idx) ==
  LET x == RegSeq(a, t, n)  y == IF b = NoRow THEN x ELSE RegSeq(b, t, n) IN
  CASE op = "swizzle_ct"   -> Swizzle(x, idx)
    [] op = "swizzle_dyn"  -> Swizzle(x, IdxSeq(b, t, n))
    [] op = "shuffle"      -> Shuffle(x, y, idx)
    [] op = "zip_lo"       -> ZipLo(x, y)
    [] op = "zip_hi"       -> ZipHi(x, y)
    [] op = "rotate_left"  -> RotateLeft(x, idx[1])
    [] op = "rotate_right" -> RotateRight(x, idx[1])
    [] op = "extract_pair" -> ExtractPair(x, y, imm)
    [] op = "insert"       -> Insert(x, idx[1], Lane(b, t, 0))
    [] op = "compress"     -> Compress(x, SubSeq(b, 1, n), ZeroLane(t))
    [] op = "expand"       -> Expand(x, SubSeq(b, 1, n), ZeroLane(t))
PermDefined(op, t, n, b, imm) == IF op = "swizzle_dyn" THEN \A i \in 0 .. n - 1 : BLt(Lane(b, t, i), FromInt(n))
                                 ELSE IF op = "extract_pair" THEN imm >= 0 /\ imm < n ELSE TRUE
PermBad(op, t, n, a, b, imm, idx, r) ==
  IF ~PermDefined(op, t, n, b, imm) THEN {}
  ELSE IF op \in {"slide_left", "slide_right"}
       THEN LET w == n * TypeTab[t].nb  src == SubSeq(a, 1, w)
                ex == IF op = "slide_left" THEN SlideLeft(src, idx[1], 0) ELSE SlideRight(src, idx[1], 0)
            IN {j \in 0 .. w - 1 : r[j + 1] # ex[j + 1]}
       ELSE LET ex == PermExpected(op, t, n, a, b, imm, idx) IN {i \in 0 .. n - 1 : Lane(r, t, i) # ex[i + 1]}
\* transpose: matrix element (i, j) = (131 i + 17 j + seed) mod 2^bits as a lane; result rows are stored one after the other
MatElem(t, i, j, seed) == LET v == Fix(FromInt(i * 131 + j * 17 + seed), TypeTab[t].nb) IN
                          IF TypeTab[t].kind = "float" THEN IntToFloat(FmtOfT(t), FALSE, v) ELSE v     \* (T)(131 i + 17 j + seed)
TransposeBad(t, n, seed, r) == {p \in (0 .. n - 1) \X (0 .. n - 1) :
                                 SubSeq(r, (p[1] * n + p[2]) * TypeTab[t].nb + 1, (p[1] * n + p[2] + 1) * TypeTab[t].nb) # MatElem(t, p[2], p[1], seed)}
PermUpd(op, t, a, r) == reg' = [reg EXCEPT ![0] = r, ![1] = a] /\ last' = <<op, t>> /\ UNCHANGED breg

\* ---- comparisons, select, Boolean registers (C03) ------------------------------------------------
CmpLane(op, t, x, y) == IF TypeTab[t].kind = "float" THEN CmpFloat(op, FmtOfT(t), x, y) ELSE CmpInt(op, TypeTab[t].S, x, y)
\* r holds one byte (0/1) per lane
CmpBad(op, t, a, b, r) == {i \in LaneIdx(t) : r[i + 1] # B2I(CmpLane(op, t, Lane(a, t, i), Lane(b, t, i)))}
CmpWith(op, t, a, b, r) ==
  /\ CmpBad(op, t, a, b, r) = {}
  /\ breg' = r /\ reg' = [reg EXCEPT ![1] = a, ![2] = b] /\ last' = <<op, t>>
\* select(c, x, y): the unmodified bit pattern of x[i] if c[i] else y[i]
SelBad(t, m, x, y, r) == {i \in LaneIdx(t) : Lane(r, t, i) # (IF MaskLane(m, t, i) THEN Lane(x, t, i) ELSE Lane(y, t, i))}
SelWith(t, m, x, y, r) ==
  /\ SelBad(t, m, x, y, r) = {}
  /\ reg' = [reg EXCEPT ![0] = r, ![1] = m, ![2] = x, ![3] = y] /\ last' = <<"select", t>> /\ UNCHANGED breg

\* register-granular Boolean operations on masks p, q of n lanes (sequences of 0/1); numeric results are 8-digit sequences
OneOf(t) == IF t = "f32" THEN <<0, 0, 128, 63>> ELSE IF t = "f64" THEN <<0, 0, 0, 0, 0, 0, 240, 63>> ELSE OneN(TypeTab[t].nb)
RECURSIVE Flat(_, _)
Flat(ss, i) == IF i > Len(ss) THEN <<>> ELSE ss[i] \o Flat(ss, i + 1)
BoolOpsMask == {"and", "or", "xor", "and=", "or=", "xor=", "andnot", "eq", "neq", "land", "lor", "fand", "for", "fxor", "not", "lnot", "fnot", "id",
                "get", "cast_i", "cast_u", "cast_f", "from_mask"}
BoolOpsNum  == {"mask", "all", "any", "none", "count"}
BoolOpsLane == {"tobatch", "bitcast", "select01"}
BoolExpected(op, t, n, p, q) ==
  CASE op \in {"and", "land", "fand", "and="} -> MAnd(p, q)
    [] op \in {"or", "lor", "for", "or="}    -> MOr(p, q)
    [] op \in {"xor", "fxor", "neq", "xor="}  -> MXor(p, q)
    [] op = "andnot" -> MAndNot(p, q)
    [] op = "eq"     -> MEq(p, q)
    [] op \in {"not", "lnot", "fnot"} -> MNot(p)
    [] op \in {"id", "get", "cast_i", "cast_u", "cast_f"} -> p
    [] op = "mask"   -> MaskVal(p)
    [] op = "all"    -> Fix(FromInt(B2I(MAll(p))), 8)
    [] op = "any"    -> Fix(FromInt(B2I(MAny(p))), 8)
    [] op = "none"   -> Fix(FromInt(B2I(MNone(p))), 8)
    [] op = "count"  -> Fix(FromInt(MCount(p)), 8)
    [] op \in {"tobatch", "select01"} -> Flat([i \in 1 .. n |-> IF p[i] = 1 THEN OneOf(t) ELSE ZeroN(TypeTab[t].nb)], 1)
    [] op = "bitcast" -> Flat([i \in 1 .. n |-> IF p[i] = 1 THEN AllOnes(TypeTab[t].nb) ELSE ZeroN(TypeTab[t].nb)], 1)
BoolOK(op, t, n, a, b, r) ==
  IF op = "from_mask"
  THEN BitLen(a) > n \/ r = FromMask(a, n)            \* arguments >= 2^n are outside the contract
  ELSE LET p == SubSeq(a, 1, n)  q == IF b = NoRow THEN p ELSE SubSeq(b, 1, n)
       IN op \in (BoolOpsMask \cup BoolOpsNum \cup BoolOpsLane) /\ BoolExpected(op, t, n, p, q) = r
BoolWith(op, t, n, a, b, r) ==
  /\ BoolOK(op, t, n, a, b, r)
  /\ breg' = r /\ last' = <<op, t>> /\ UNCHANGED reg

\* ---- compile-time constants (C19): a constant denotes a lane vector; n lanes of type t --------------------------------------
\* generator functors of the harness grammar: lane i = G(i, n)
GenVal(g, i, n, pa, pb) == CASE g = "iota" -> i * pa + pb [] g = "rev" -> (n - 1 - i) * pa + pb [] g = "mod" -> (i * pa + pb) % n [] g = "par" -> (i % 2) * pa + pb
BGenVal(g, i, k) == CASE g = "lt" -> B2I(i < k) [] g = "mod" -> B2I(i % k = 0)
Rep3(x) == x \o x \o x
ConstOK(ck, op, t, n, va, vb, g, r) ==
  LET nb == TypeTab[t].nb  S == TypeTab[t].S  w == n * nb IN
  CASE ck = "const"  -> r = Rep3(SubSeq(va, 1, w))                                          \* as_batch, get(i), implicit conversion
    [] ck = "bconst" -> LET bits == SubSeq(va, 1, n) IN
                        r = Rep3(bits) \o (IF n <= 32 THEN SubSeq(MaskVal(bits), 1, 4) ELSE <<0, 0, 0, 0>>)      \* ..., mask()
    [] ck = "gen"    -> \A i \in 0 .. n - 1 : Lane(r, t, i) = Fix(FromInt(GenVal(op, i, n, g[1], g[2])), nb)
    [] ck = "bgen"   -> \A i \in 0 .. n - 1 : r[i + 1] = BGenVal(op, i, g[1])
    [] ck = "op2"    -> \A i \in 0 .. n - 1 :
                          LET x == Lane(va, t, i)  y == Lane(vb, t, i)  z == Lane(r, t, i) IN
                          CASE op = "/" -> VDivDefined(S, x, y) => z = VDiv(S, x, y)
                            [] op = "%" -> VDivDefined(S, x, y) => z = VRem(S, x, y)
                            [] OTHER -> IntRel(CASE op = "+" -> "add" [] op = "-" -> "sub" [] op = "*" -> "mul" [] op = "&" -> "and" [] op = "|" -> "or" [] op = "^" -> "xor",
                                               S, x, y, x, FALSE, 0, z)
    [] ck = "op1"    -> \A i \in 0 .. n - 1 : Lane(r, t, i) = (IF op = "-" THEN VNeg(Lane(va, t, i)) ELSE VNot(Lane(va, t, i)))
    [] ck = "bop2"   -> LET p == SubSeq(va, 1, n)  q == SubSeq(vb, 1, n) IN
                        r = (CASE op \in {"&", "&&"} -> MAnd(p, q) [] op \in {"|", "||"} -> MOr(p, q) [] op = "^" -> MXor(p, q))
    [] ck = "bop1"   -> r = MNot(SubSeq(va, 1, n))
    \* an API taking a constant returns what the run-time form returns for the converted batch - and both follow the operation's meaning
    [] ck = "sel"    -> LET ex == Flat([i \in 1 .. n |-> IF g[i] = 1 THEN Lane(va, t, i - 1) ELSE Lane(vb, t, i - 1)], 1) IN r = ex \o ex
    [] ck = "swz"    -> LET ex == Flat(Swizzle(RegSeq(va, t, n), g), 1) IN r = ex \o ex
    [] OTHER -> FALSE
ConstWith(ck, op, t, n, va, vb, g, r) == ConstOK(ck, op, t, n, va, vb, g, r) /\ reg' = [reg EXCEPT ![0] = r] /\ last' = <<ck, op, t>> /\ UNCHANGED breg

=============================================================================
