------------------------------- MODULE PermLaws -------------------------------
(***************************************************************************)
(* Design-level check of the permutation layer on token registers: TLC       *)
(* enumerates every lane count n in Ns, every rotate/extract count, every     *)
(* mask and (for n <= NIdx) every index vector, and checks the group-like     *)
(* laws of C05 together with three kernel transcriptions:                     *)
(*  K_Compress     create_compress_swizzle_mask (swap loop) and               *)
(*                 create_expand_swizzle_mask (xsimd_generic_memory.hpp:61-113)*)
(*  K_ExtractPair  the generic extract_pair copy loops (.. :115-139)           *)
(*  K_Rotate       the rotate generators incl. the size_t wrap of             *)
(*                 (index - N) % size (.. :332-372)                            *)
(***************************************************************************)
EXTENDS Perm, TLC
CONSTANTS Ns, NIdx
VARIABLES n, k, m
TokX(nn) == Mk(nn, LAMBDA i : <<"x", i>>)
TokY(nn) == Mk(nn, LAMBDA i : <<"y", i>>)
Zero == <<"zero">>
Init == n \in Ns /\ k \in 0 .. 64 /\ m = <<>>
Next == /\ m = <<>> /\ k = 0 /\ m' \in [1 .. n -> {0, 1}] /\ UNCHANGED <<n, k>>
\* ---- K_Compress -------------------------------------------------------------------------------------------
\* swap loop: buffer starts as identity; for i ascending, if bit i is set swap(buffer[inserted++], buffer[i])
RECURSIVE SwapLoop(_, _, _, _)
SwapLoop(buf, mask, i, ins) == IF i > Len(buf) THEN buf
                               ELSE IF mask[i] = 1 THEN SwapLoop([buf EXCEPT ![ins + 1] = buf[i], ![i] = buf[ins + 1]], mask, i + 1, ins + 1)
                               ELSE SwapLoop(buf, mask, i + 1, ins)
CompressK(x, mask) == LET z == Mk(Len(x), LAMBDA i : IF L(mask, i) = 1 THEN L(x, i) ELSE Zero)
                          idx == SwapLoop(Mk(Len(x), LAMBDA i : i), mask, 1, 0)
                      IN Swizzle(z, idx)
\* expand mask: lane i gets index j, then j += bit i
ExpandK(x, mask) == LET idx == Mk(Len(x), LAMBDA i : CountBelow(mask, i))  z == Swizzle(x, idx)
                    IN Mk(Len(x), LAMBDA i : IF L(mask, i) = 1 THEN L(z, i) ELSE Zero)
\* ---- K_ExtractPair: one loop j < size - i copying other[i + j]; a second loop copying self[0 .. i-1] to the top -------------
ExtractPairK(x, y, kk) == LET nn == Len(x) IN Mk(nn, LAMBDA i : IF i < nn - kk THEN L(y, kk + i) ELSE L(x, kk - 1 - (nn - 1 - i)))
\* ---- K_Rotate: generators evaluated in size_t arithmetic (2^64 wrap) then % size ---------------------------------------
\* (index - N) mod 2^64 mod size = (index - N) mod size because size divides 2^64 (sizes are powers of two)
RotR_K(x, kk) == LET nn == Len(x) IN Swizzle(x, Mk(nn, LAMBDA i : IF i >= kk THEN (i - kk) % nn ELSE (nn - ((kk - i) % nn)) % nn))
RotL_K(x, kk) == LET nn == Len(x) IN Swizzle(x, Mk(nn, LAMBDA i : (i + kk) % nn))

CountLaws ==
  m # <<>> \/ k >= n \/
  LET x == TokX(n)  y == TokY(n) IN
  /\ RotateRight(RotateLeft(x, k), k) = x
  /\ RotateLeft(x, k) = RotL_K(x, k) /\ RotateRight(x, k) = RotR_K(x, k)
  /\ RotateLeft(x, k) = RotateRight(x, (n - k) % n)
  /\ ExtractPair(x, y, k) = ExtractPairK(x, y, k)
  /\ ExtractPair(x, y, 0) = y
  /\ (k > 0 => L(ExtractPair(x, y, k), n - 1) = L(x, k - 1))
  /\ Insert(x, k, Zero)[k + 1] = Zero
  \* zip_lo and zip_hi together use each input lane exactly once
  /\ {ZipLo(x, y)[i] : i \in 1 .. n} \cup {ZipHi(x, y)[i] : i \in 1 .. n} = {x[i] : i \in 1 .. n} \cup {y[i] : i \in 1 .. n}
MaskLaws ==
  m = <<>> \/
  LET x == TokX(n) IN
  /\ Compress(x, m, Zero) = CompressK(x, m)
  /\ Expand(x, m, Zero) = ExpandK(x, m)
  /\ Expand(Compress(x, m, Zero), m, Zero) = Mk(n, LAMBDA i : IF L(m, i) = 1 THEN L(x, i) ELSE Zero)   \* = select(m, x, 0)
IdxLaws ==
  m # <<>> \/ k # 0 \/ n > NIdx \/
  LET x == TokX(n)  y == TokY(n) IN
  /\ \A idx \in [1 .. n -> 0 .. n - 1] : Shuffle(x, y, idx) = Swizzle(x, idx)
  /\ \A idx \in [1 .. n -> 0 .. 2 * n - 1] :
       \A i \in 0 .. n - 1 : L(Shuffle(x, y, idx), i) = (IF L(idx, i) < n THEN <<"x", L(idx, i)>> ELSE <<"y", L(idx, i) - n>>)
TransposeLaw == m # <<>> \/ k # 0 \/ n > 8 \/
                LET mat == Mk(n, LAMBDA i : Mk(n, LAMBDA j : <<i, j>>)) IN Transpose(Transpose(mat)) = mat /\ L(L(Transpose(mat), 1), 0) = <<0, 1>>
=============================================================================
