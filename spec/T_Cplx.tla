-------------------------------- MODULE T_Cplx --------------------------------
(* Trace specification for complex batches (C16).  kinds: cx2/cx3 arithmetic (judged exactly), cx1e exact component   *)
(* operations, cxc comparisons, ctab tabulated functions (components against the Exact table).                          *)
EXTENDS Cplx, Json, IOUtils, TLC
VARIABLES l, last
Log == ndJsonDeserialize(IOEnv.TRACE)
Fm(t) == IF t = "f32" THEN F32 ELSE F64
NB(t) == IF t = "f32" THEN 4 ELSE 8
NL(t) == 64 \div NB(t)
Lane(row, t, i) == SubSeq(row, i * NB(t) + 1, (i + 1) * NB(t))
Re(e, i) == Lane(SubSeq(e.r, 1, 64), e.t, i)
Im(e, i) == Lane(SubSeq(e.r, 65, 128), e.t, i)
Ent(e, c, i) == [k |-> e.xk[c + 1][i + 1], s |-> e.xs[c + 1][i + 1], e |-> e.xe[c + 1][i + 1], m |-> Norm(SubSeq(e.xm[c + 1], 8 * i + 1, 8 * i + 8))]
K2(op) == IF op \in {"exp", "sqrt", "sin", "cos", "sinh", "cosh", "expm1"} THEN 3 ELSE 5
Bad(e) ==
  LET f == Fm(e.t)  n == NL(e.t) IN
  CASE e.k = "cx2" -> {i \in 0 .. n - 1 : FiniteC(f, Lane(e.a, e.t, i), Lane(e.b, e.t, i)) /\ FiniteC(f, Lane(e.c, e.t, i), Lane(e.d, e.t, i)) /\
                          ~CArithOK(e.op, f, Lane(e.a, e.t, i), Lane(e.b, e.t, i), Lane(e.c, e.t, i), Lane(e.d, e.t, i), Lane(e.a, e.t, i), Lane(e.a, e.t, i), Re(e, i), Im(e, i))}
    [] e.k = "cx3" -> {i \in 0 .. n - 1 : ~CArithOK(e.op, f, Lane(e.a, e.t, i), Lane(e.b, e.t, i), Lane(e.c, e.t, i), Lane(e.d, e.t, i), Lane(e.b, e.t, i), Lane(e.c, e.t, i), Re(e, i), Im(e, i))}
    [] e.k = "cx1e" -> {i \in 0 .. n - 1 : ~(CASE e.op = "conj" -> ConjOK(f, Lane(e.a, e.t, i), Lane(e.b, e.t, i), Re(e, i), Im(e, i))
                                               [] e.op = "neg" -> NegOK(f, Lane(e.a, e.t, i), Lane(e.b, e.t, i), Re(e, i), Im(e, i))
                                               [] e.op = "proj" -> ProjOK(f, Lane(e.a, e.t, i), Lane(e.b, e.t, i), Re(e, i), Im(e, i))
                                               [] e.op = "real" -> Lane(e.r, e.t, i) = Lane(e.a, e.t, i)
                                               [] e.op = "imag" -> Lane(e.r, e.t, i) = Lane(e.b, e.t, i))}
    [] e.k = "cxc" -> {i \in 0 .. n - 1 : LET eq == FEq(f, Lane(e.a, e.t, i), Lane(e.c, e.t, i)) /\ FEq(f, Lane(e.b, e.t, i), Lane(e.d, e.t, i)) IN
                                          e.r[i + 1] # (IF eq THEN 1 ELSE 0) \/ e.r[n + i + 1] # (IF eq THEN 0 ELSE 1)}
    [] e.k = "ctab" -> {i \in 0 .. n - 1 : Ent(e, 0, i).k # 2 /\ Ent(e, 2, i).k # 2 /\
                          ~(TabCompOK(f, K2(e.op), Re(e, i), Ent(e, 0, i), Ent(e, 2, i)) /\ (e.real = 1 \/ TabCompOK(f, K2(e.op), Im(e, i), Ent(e, 1, i), Ent(e, 2, i))))}
    [] OTHER -> {-1}
Init == /\ l = 1 /\ last = <<>>
        /\ TLCSet(1, 0) /\ TLCSet(2, 0) /\ TLCSet(3, 0) /\ TLCSet(4, 0)
Step ==
  /\ l <= Len(Log)
  /\ LET e == Log[l]  bad == Bad(e) IN
     IF bad = {} THEN last' = <<e.k, e.op, e.t>> /\ TLCSet(1, TLCGet(1) + 1) /\ TLCSet(3, TLCGet(3) + NL(e.t))
     ELSE /\ PrintT("REJECT id=" \o ToString(e.id) \o " k=" \o e.k \o " op=" \o e.op \o " t=" \o e.t \o " lanes=" \o ToString(bad) \o " archs=" \o ToString(e.archs) \o " known=-"
                    \o (IF bad = {-1} THEN "" ELSE LET i == CHOOSE j \in bad : \A k \in bad : j <= k IN
                          " lane=" \o ToString(i) \o " z=" \o (IF "b" \in DOMAIN e THEN ToString(<<Lane(e.a, e.t, i), Lane(e.b, e.t, i)>>) ELSE "-") \o " r=" \o (IF Len(e.r) >= 64 THEN ToString(<<Lane(SubSeq(e.r, 1, 64), e.t, i)>>) ELSE ToString(e.r))))
          /\ TLCSet(2, TLCGet(2) + 1) /\ UNCHANGED last
  /\ l' = l + 1 /\ TLCSet(4, l)
Next == Step
Accepted == /\ PrintT("STATS events=" \o ToString(Len(Log)) \o " consumed=" \o ToString(TLCGet(4)) \o " accepted=" \o ToString(TLCGet(1))
                       \o " rejected=" \o ToString(TLCGet(2)) \o " lanes=" \o ToString(TLCGet(3)))
            /\ TLCGet(4) = Len(Log)
=============================================================================
