---------------------------------- MODULE Mem ----------------------------------
(***************************************************************************)
(* Memory transfers (property C04).  State: mem - the accessible page of the *)
(* harness arena, Addr = 0 .. PageSize-1, every other address is a guard       *)
(* (inaccessible: an action whose range leaves the page is never enabled, so a *)
(* Fault event has no matching action).  Between two events the page is reset   *)
(* to the canary pattern; a store event reports the set of page bytes that      *)
(* differ from the canary afterwards, which is the whole frame condition:       *)
(*   mem' = [a |-> IF a in Range THEN byte of the register ELSE mem[a]].         *)
(***************************************************************************)
EXTENDS Integers, Sequences, FiniteSets, TLC
CONSTANT PageSize
VARIABLE mem
Addr == 0 .. PageSize - 1
Canary(a) == (a * 131 + 7) % 256
Range(p, n) == p .. p + n - 1
InPage(p, n) == p >= 0 /\ p + n <= PageSize
Fresh == [a \in Addr |-> Canary(a)]
\* a store of the byte string bs (a register, a bool array, an interleaved complex register) at p
StoreBytes(p, bs) == /\ InPage(p, Len(bs))
                     /\ mem' = [a \in Addr |-> IF a \in Range(p, Len(bs)) THEN bs[a - p + 1] ELSE mem[a]]
AlignedOK(p, align) == p % align = 0
\* the observation of a store: changed = set of <<address, value>> pairs of page bytes that differ from the canary
StoreObservedOK(p, bs, changed) ==
  /\ InPage(p, Len(bs))
  /\ \A c \in changed : c[1] \in Range(p, Len(bs)) /\ c[2] = bs[c[1] - p + 1]                 \* nothing outside the range, right values inside
  /\ \A i \in 1 .. Len(bs) : bs[i] # Canary(p + i - 1) => <<p + i - 1, bs[i]>> \in changed      \* every byte of the range was written
\* a load returns the bytes at p and leaves the page unchanged
LoadObservedOK(p, bs, loaded, nchanged) == InPage(p, Len(bs)) /\ loaded = bs /\ nchanged = 0
\* interleaving of complex batches: memory element i = (re_i, im_i)
RECURSIVE Interleave(_, _, _, _)
Interleave(re, im, nb, i) == IF i * nb >= Len(re) THEN <<>>
                             ELSE SubSeq(re, i * nb + 1, (i + 1) * nb) \o SubSeq(im, i * nb + 1, (i + 1) * nb) \o Interleave(re, im, nb, i + 1)
=============================================================================
