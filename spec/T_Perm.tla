-------------------------------- MODULE T_Perm --------------------------------
(* Trace specification for data-movement events (C05): run-time forms ("pm") and *)
(* generated compile-time instantiations ("pc"; the mask / count of the program   *)
(* that was compiled is attached as idx).  Float lanes holding a NaN pattern are   *)
(* compared as bytes like everything else: a permutation must not alter them.      *)
EXTENDS Xsimd, Json, IOUtils
VARIABLE l
Log == ndJsonDeserialize(IOEnv.TRACE)
Opt(e, f) == IF f \in DOMAIN e THEN e[f] ELSE NoRow
RejectLine(e, bad) == "REJECT id=" \o ToString(e.id) \o " k=" \o e.k \o " op=" \o e.op \o " t=" \o e.t \o " w=" \o ToString(e.w)
                      \o " lanes=" \o ToString(bad) \o " archs=" \o ToString(e.archs) \o " known=-"
                      \o " imm=" \o ToString(e.imm) \o " idx=" \o (IF "idx" \in DOMAIN e THEN ToString(e.idx) ELSE "-")
Init == /\ l = 1 /\ reg = [i \in 0 .. 3 |-> NoRow] /\ breg = <<>> /\ last = <<>>
        /\ TLCSet(1, 0) /\ TLCSet(2, 0) /\ TLCSet(3, 0) /\ TLCSet(4, 0)
Rej(e, bad) == /\ PrintT(RejectLine(e, bad)) /\ TLCSet(2, TLCGet(2) + 1) /\ UNCHANGED xvars
Acc(n) == TLCSet(1, TLCGet(1) + 1) /\ TLCSet(3, TLCGet(3) + n)
Step ==
  /\ l <= Len(Log)
  /\ LET e == Log[l] IN
     IF e.k \notin {"pm", "pc"} \/ e.t \notin TypeNames \/ e.w = 0 THEN Rej(e, {})
     ELSE LET n == e.w \div TypeTab[e.t].nb IN
          IF e.op = "transpose"
          THEN LET bad == TransposeBad(e.t, n, e.a[1], e.r) IN
               IF bad = {} THEN PermUpd(e.op, e.t, e.a, e.r) /\ Acc(n * n) ELSE Rej(e, bad)
          ELSE LET bad == PermBad(e.op, e.t, n, e.a, Opt(e, "b"), e.imm, Opt(e, "idx"), e.r) IN
               IF bad = {} THEN PermUpd(e.op, e.t, e.a, e.r) /\ Acc(n) ELSE Rej(e, bad)
  /\ l' = l + 1 /\ TLCSet(4, l)
Next == Step
Accepted == /\ PrintT("STATS events=" \o ToString(Len(Log)) \o " consumed=" \o ToString(TLCGet(4)) \o " accepted=" \o ToString(TLCGet(1))
                       \o " rejected=" \o ToString(TLCGet(2)) \o " lanes=" \o ToString(TLCGet(3)))
            /\ TLCGet(4) = Len(Log)
=============================================================================
