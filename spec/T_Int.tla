-------------------------------- MODULE T_Int --------------------------------
(* Trace specification for integer element-wise events (families "ew", "ewi", *)
(* "ewm" of the harness): every event recorded from the real code must be a   *)
(* step of the machine's element-wise action with the logged result.  A       *)
(* rejected event does not block (all rejections are wanted, to separate      *)
(* known findings from new violations): it is printed as a REJECT line, the   *)
(* registers are re-synchronised from the log and validation continues.       *)
EXTENDS Xsimd, Json, IOUtils
VARIABLE l
Log == ndJsonDeserialize(IOEnv.TRACE)
Opt(e, f) == IF f \in DOMAIN e THEN e[f] ELSE NoRow

\* one-line, machine-readable report of a rejected event
RejectLine(e, bad) == "REJECT id=" \o ToString(e.id) \o " k=" \o e.k \o " op=" \o e.op \o " t=" \o e.t
                      \o " lanes=" \o ToString(bad) \o " archs=" \o ToString(e.archs)
                      \o " known=" \o (IF e.k \in {"ew", "ewi"} /\ e.t \in TypeNames /\ bad # {}
                                        THEN EwIntKnown(e.op, e.t, e.a, Opt(e, "b"), e.imm, e.r, bad) ELSE "-")
                      \o (IF bad = {} \/ e.t \notin TypeNames THEN ""
                          ELSE LET i == CHOOSE j \in bad : \A k \in bad : j <= k IN
                               " lane=" \o ToString(i) \o " x=" \o ToString(Lane(e.a, e.t, i))
                               \o " y=" \o (IF "b" \in DOMAIN e THEN ToString(Lane(e.b, e.t, i)) ELSE "-")
                               \o " z=" \o (IF "c" \in DOMAIN e THEN ToString(Lane(e.c, e.t, i)) ELSE "-")
                               \o " imm=" \o ToString(e.imm)
                               \o " r=" \o ToString(Lane(e.r, e.t, i)))

Init == /\ l = 1 /\ reg = [i \in 0 .. 3 |-> NoRow] /\ breg = <<>> /\ last = <<>>
        /\ TLCSet(1, 0) /\ TLCSet(2, 0) /\ TLCSet(3, 0) /\ TLCSet(4, 0)

Step ==
  /\ l <= Len(Log)
  /\ LET e == Log[l]
         a == Opt(e, "a")  b == Opt(e, "b")  c == Opt(e, "c")
     IN IF e.k \in {"ew", "ew2", "ewi", "ewm"} /\ e.t \in TypeNames /\ TypeTab[e.t].kind = "int"
        THEN LET bad == IF e.k = "ew2" THEN Ew2IntBad(e.op, e.t, a, b, e.r) ELSE EwIntBad(e.op, e.t, a, b, c, e.imm, e.r) IN
             IF bad = {}
             THEN /\ IF e.k = "ew2" THEN Ew2IntWith(e.op, e.t, a, b, e.r) ELSE EwIntWith(e.op, e.t, a, b, c, e.imm, e.r)
                  /\ TLCSet(1, TLCGet(1) + 1) /\ TLCSet(3, TLCGet(3) + NLanes(e.t))
             ELSE /\ PrintT(RejectLine(e, bad))
                  /\ TLCSet(2, TLCGet(2) + 1)
                  /\ reg' = [reg EXCEPT ![0] = e.r, ![1] = a, ![2] = b, ![3] = c]
                  /\ last' = <<"rejected", e.op>> /\ UNCHANGED breg
        ELSE /\ PrintT(RejectLine(e, {}))   \* no action for this event (e.g. fault)
             /\ TLCSet(2, TLCGet(2) + 1)
             /\ UNCHANGED xvars
  /\ l' = l + 1 /\ TLCSet(4, l)
Next == Step
\* every line of the log was consumed (register 4 = last consumed position)
Accepted == /\ PrintT("STATS events=" \o ToString(Len(Log)) \o " consumed=" \o ToString(TLCGet(4)) \o " accepted=" \o ToString(TLCGet(1))
                       \o " rejected=" \o ToString(TLCGet(2)) \o " lanes=" \o ToString(TLCGet(3)))
            /\ TLCGet(4) = Len(Log)
=============================================================================
