---------------------------- MODULE GeometryModel ----------------------------
(* Design-level check of the specification's own architecture table: TLC       *)
(* evaluates the C20 invariants on it (parents later in the best-first list,   *)
(* register widths, lane counts of every (architecture, element type) pair,    *)
(* every sub-list alignment = max).                                            *)
EXTENDS Geometry
VARIABLE i
TypeBytes == {1, 2, 4, 8}
ParentLater == \A k \in 1 .. Len(SpecArchs) :
                 SpecArchs[k].parent = "generic" \/ (IsSpecArch(SpecArchs[k].parent) /\ SpecIdx(SpecArchs[k].parent) > k)
WidthsOK == \A k \in 1 .. Len(SpecArchs) : SpecArchs[k].bits \in {128, 256, 512} /\ IsPow2(SpecArchs[k].bits \div 8)
\* the parent's register is never wider (a kernel inherited from the parent must fit)
ParentNotWider == \A k \in 1 .. Len(SpecArchs) : SpecArchs[k].parent = "generic" \/ SpecArchs[SpecIdx(SpecArchs[k].parent)].bits <= SpecArchs[k].bits
LanesOK == \A k \in 1 .. Len(SpecArchs), tb \in TypeBytes :
             LET n == (SpecArchs[k].bits \div 8) \div tb IN n * tb = SpecArchs[k].bits \div 8 /\ n \in 2 .. 64
NamesDistinct == \A a, b \in 1 .. Len(SpecArchs) : a # b => SpecArchs[a].name # SpecArchs[b].name
Init == i = 1
Next == i < Len(SpecArchs) /\ i' = i + 1
\* every suffix starting at i is a legal dispatch list: best-first and its alignment is that of its head (widest first)
SuffixOK == \A k \in i .. Len(SpecArchs) : SpecArchs[k].bits <= SpecArchs[i].bits
Inv == ParentLater /\ WidthsOK /\ ParentNotWider /\ LanesOK /\ NamesDistinct /\ SuffixOK
=============================================================================
