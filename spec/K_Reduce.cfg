INIT Init
NEXT Next
INVARIANT ResultOK
CHECK_DEADLOCK FALSE
