CONSTANT Shipped = TRUE
INIT Init
NEXT Next
INVARIANTS ShufflePatOK
CHECK_DEADLOCK FALSE
