INIT Init
NEXT Next
INVARIANTS SatAvgOK ShippedSsubBroken ShiftOK
CHECK_DEADLOCK FALSE
