INIT Init0
NEXT Step
POSTCONDITION Accepted
CHECK_DEADLOCK FALSE
