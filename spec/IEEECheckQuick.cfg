INIT Init
NEXT Next
INVARIANTS Pairs
CHECK_DEADLOCK FALSE
