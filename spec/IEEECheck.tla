----------------------------- MODULE IEEECheck -----------------------------
(***************************************************************************)
(* Self-check of IEEE.tla on the mini-format (E = 3, M = 2) stored in one     *)
(* byte (64 data): TLC compares, for EVERY operand pair (and every triple for  *)
(* the fused multiply-add), the digit-sequence implementation with a           *)
(* declarative definition on native integers: "the representable value nearest *)
(* to the exact rational result, ties to the even significand, overflow to     *)
(* infinity from MAX + ulp/2, gradual underflow", plus the sign rules for zero. *)
(* Division and square root are checked in both directions: the characterisation *)
(* accepts the declaratively rounded value and rejects its two neighbours.      *)
(***************************************************************************)
EXTENDS IEEE, TLC
VARIABLES a, ph
F8 == [E |-> 3, M |-> 2]
Data == 0 .. 63
D(v) == <<v>>                         \* one-byte datum (bits 6, 7 zero)
Sgn(v) == v \div 32
Fin(v) == (v % 32) \div 4 # 7
Nan(v) == (v % 32) \div 4 = 7 /\ v % 4 # 0
Inf(v) == (v % 32) \div 4 = 7 /\ v % 4 = 0
\* magnitude scaled by 2^4 (all finite values are integers at that scale)
Mag16(v) == LET ef == (v % 32) \div 4  mf == v % 4 IN IF ef = 0 THEN mf ELSE (4 + mf) * 2 ^ (ef - 1)
PosFinite == {v \in 0 .. 27 : TRUE}   \* 0 .. 27 are +0 and the positive finite data in increasing order
\* nearest positive datum (or 28 = +inf) to the positive rational N / Dn at scale 2^4; ties to even encoding
AbsI(x) == IF x < 0 THEN -x ELSE x
Cand == 0 .. 28
CVal(c) == IF c = 28 THEN 256 ELSE Mag16(c)
RefRoundPos(N, Dn) ==
  LET dist(c) == AbsI(CVal(c) * Dn - N)
      best == CHOOSE c \in Cand : \A d \in Cand : dist(c) < dist(d) \/ (dist(c) = dist(d) /\ (c = d \/ c % 2 = 0))
  IN best
\* signed rational N / Dn (Dn > 0) -> datum; zeroSign used when N = 0
RefRound(N, Dn, zeroSign) == IF N = 0 THEN 32 * zeroSign ELSE IF N > 0 THEN RefRoundPos(N, Dn) ELSE 32 + RefRoundPos(-N, Dn)
SVal(v) == IF Sgn(v) = 1 THEN -Mag16(v) ELSE Mag16(v)

RefAdd(x, y) == IF Nan(x) \/ Nan(y) THEN -1
                ELSE IF Inf(x) THEN (IF Inf(y) /\ Sgn(x) # Sgn(y) THEN -1 ELSE x)
                ELSE IF Inf(y) THEN y
                ELSE RefRound(SVal(x) + SVal(y), 1, IF Sgn(x) = 1 /\ Sgn(y) = 1 THEN 1 ELSE 0)
RefMul(x, y) == LET s == (Sgn(x) + Sgn(y)) % 2 IN
                IF Nan(x) \/ Nan(y) THEN -1
                ELSE IF Inf(x) \/ Inf(y) THEN (IF (Fin(x) /\ Mag16(x) = 0) \/ (Fin(y) /\ Mag16(y) = 0) THEN -1 ELSE 28 + 32 * s)
                ELSE RefRound(SVal(x) * SVal(y), 16, s)
RefFma(x, y, z) == LET sp == (Sgn(x) + Sgn(y)) % 2 IN
                   IF Nan(x) \/ Nan(y) \/ Nan(z) THEN -1
                   ELSE IF Inf(x) \/ Inf(y)
                        THEN (IF (Fin(x) /\ Mag16(x) = 0) \/ (Fin(y) /\ Mag16(y) = 0) THEN -1 ELSE IF Inf(z) /\ Sgn(z) # sp THEN -1 ELSE 28 + 32 * sp)
                   ELSE IF Inf(z) THEN z
                   ELSE RefRound(SVal(x) * SVal(y) + 16 * SVal(z), 16, IF sp = 1 /\ Sgn(z) = 1 THEN 1 ELSE 0)
Same(ref, got) == IF ref = -1 THEN got = NaNRes ELSE got = D(ref)

Init == a \in 0 .. 15 /\ ph = 0
Next == ph = 0 /\ ph' = 1 /\ a' \in {x \in Data : x % 16 = a}

PairOK(x, y) ==
  /\ Same(RefAdd(x, y), FAdd(F8, D(x), D(y)))
  /\ (Nan(y) \/ Same(RefAdd(x, IF y >= 32 THEN y - 32 ELSE y + 32), FSub(F8, D(x), D(y))))
  /\ Same(RefMul(x, y), FMul(F8, D(x), D(y)))
  \* division: the declaratively rounded quotient is accepted, its neighbours are not
  /\ (Fin(x) /\ Fin(y) /\ Mag16(x) # 0 /\ Mag16(y) # 0 =>
        LET q == RefRound(SVal(x) * 16 * (IF Sgn(y) = 1 THEN -1 ELSE 1), Mag16(y), 0) IN
        /\ FDivOK(F8, D(x), D(y), D(q))
        /\ (q % 32 > 0 => ~FDivOK(F8, D(x), D(y), D(q - 1)))
        /\ (q % 32 < 28 => ~FDivOK(F8, D(x), D(y), D(q + 1))))
  /\ FEq(F8, D(x), D(y)) = (~Nan(x) /\ ~Nan(y) /\ SVal(x) = SVal(y))
  /\ FLt(F8, D(x), D(y)) = (~Nan(x) /\ ~Nan(y) /\ (IF Inf(x) THEN Sgn(x) = 1 /\ ~(Inf(y) /\ Sgn(y) = 1)
                                                   ELSE IF Inf(y) THEN Sgn(y) = 0 ELSE SVal(x) < SVal(y)))
UnaryOK(x) ==
  /\ (Fin(x) /\ Sgn(x) = 0 /\ Mag16(x) # 0 =>
        \* sqrt: exactly one positive finite datum is accepted, and it is the one whose square brackets x correctly:
        \* r accepted  <=>  lower midpoint^2 <= x <= upper midpoint^2 (checked through uniqueness + monotonicity)
        /\ \E r \in 1 .. 27 : FSqrtOK(F8, D(x), D(r))
        /\ \A r, t \in 1 .. 27 : FSqrtOK(F8, D(x), D(r)) /\ FSqrtOK(F8, D(x), D(t)) => r = t
        /\ \A r \in 1 .. 27 : FSqrtOK(F8, D(x), D(r)) =>
              \* (r - half ulp)^2 <= x <= (r + half ulp)^2 at scale: Mag16 values, x scaled by 16 once more
              LET lo == IF r = 1 THEN 0 ELSE (Mag16(r) + Mag16(r - 1))  hi == IF r = 27 THEN 2 * 240 ELSE (Mag16(r) + Mag16(r + 1)) IN
              lo * lo <= 4 * 16 * Mag16(x) /\ 4 * 16 * Mag16(x) <= hi * hi)
  /\ (~Nan(x) => FNeg(F8, D(x)) = D((x + 32) % 64) /\ FAbs(F8, D(x)) = D(x % 32))
  /\ Class(F8, D(x)) = (IF Nan(x) THEN "nan" ELSE IF Inf(x) THEN "inf" ELSE IF Mag16(x) = 0 THEN "zero" ELSE IF (x % 32) \div 4 = 0 THEN "sub" ELSE "normal")
  /\ (Fin(x) => IsFlint(F8, D(x)) = (Mag16(x) % 16 = 0)
              /\ IsEven(F8, D(x)) = (Mag16(x) % 32 = 0)
              /\ IsOdd(F8, D(x)) = (Mag16(x) % 32 = 16))
  \* rounding to integral values against floor/ceil arithmetic on the scaled integer
  /\ (Fin(x) => LET v == SVal(x)  fl == (v \div 16) * 16  ce == IF v % 16 = 0 THEN v ELSE fl + 16 IN
                /\ SameNumber(F8, RoundInt(F8, D(x), "down"), D(RefRound(fl, 1, Sgn(x))))
                /\ SameNumber(F8, RoundInt(F8, D(x), "up"), D(RefRound(ce, 1, Sgn(x))))
                /\ SameNumber(F8, RoundInt(F8, D(x), "zero"), D(RefRound(IF v >= 0 THEN fl ELSE ce, 1, Sgn(x))))
                /\ SameNumber(F8, RoundInt(F8, D(x), "away"), D(RefRound(IF v % 16 = 8 THEN (IF v >= 0 THEN ce ELSE fl) ELSE IF v % 16 < 8 THEN fl ELSE ce, 1, Sgn(x))))
                /\ SameNumber(F8, RoundInt(F8, D(x), "even"), D(RefRound(IF v % 16 = 8 THEN (IF fl % 32 = 0 THEN fl ELSE ce) ELSE IF v % 16 < 8 THEN fl ELSE ce, 1, Sgn(x)))))
  \* nextafter steps to the neighbouring datum
  /\ (Fin(x) /\ ~(x = 27) /\ Sgn(x) = 0 => NextAfter(F8, D(x), D(28)) = D(x + 1))
  /\ (Fin(x) /\ Sgn(x) = 0 /\ x > 0 => NextAfter(F8, D(x), D(60)) = D(x - 1))
  /\ (Fin(x) /\ Mag16(x) # 0 => LET m == FrexpMant(F8, D(x))  k == FrexpExp(F8, D(x)) IN
                                /\ Mag16(m[1]) >= 8 /\ Mag16(m[1]) < 16 /\ Ldexp(F8, m, k) = D(x))

Pairs == ph = 0 \/ (UnaryOK(a) /\ \A y \in Data : PairOK(a, y))
Triples == ph = 0 \/ \A y \in Data, z \in Data : Same(RefFma(a, y, z), FFma(F8, D(a), D(y), D(z)))
=============================================================================
