------------------------------- MODULE Accuracy -------------------------------
(***************************************************************************)
(* Accuracy of the elementary functions (properties C10, C11).  TLA+ cannot  *)
(* define exp or Gamma: the exact value Exact(fn, x) is an UNINTERPRETED      *)
(* constant of this specification.  The model instantiates it with a finite   *)
(* table computed by an arbitrary-precision evaluator (tools/gen_ref.py,       *)
(* mpmath, 300 bits): for each sampled point the entry                         *)
(*   [kind, s, e, m]  with  |Exact| in [m, m+1) * 2^(e-p-7),  2^e <= |Exact|    *)
(* i.e. the exact value truncated to 1/256 ulp.  All error arithmetic below is   *)
(* exact integer arithmetic; the truncation is accounted for on the safe side    *)
(* (two extra units), so it can hide a violation of at most 2^-7 ulp but never    *)
(* cause a false alarm.  The claim is therefore explicitly a SAMPLED one.         *)
(***************************************************************************)
EXTENDS MathCatalog

InScopeArg(f, x) == Class(f, x) \in {"zero", "normal"}           \* finite, non-subnormal
\* floor(log2 |r|) of a finite non-zero datum
TopExp(d) == d.e + BitLen(d.m) - 1
\* bound in half-ulps, with the two regimes of tgamma
B2At(fn, f, x, yl) ==
  IF fn = "tgamma" THEN (IF FLe(f, FAbs(f, x), FromNatF(f, 0, <<33>>)) THEN 32 ELSE B2("tgamma", f))
  ELSE IF fn = "pow" THEN 8 * (1 + yl)
  ELSE B2(fn, f)
\* ent = [k, s, e, m]: table entry; r: datum returned by the code
AccOK(fn, f, x, r, ent, yl) ==
  LET p == Prec(f)  dr == Dec(f, r) IN
  CASE ent.k = 4 -> TRUE                                                        \* point outside the scope of the accuracy claim
    [] ent.k \in {2, 3} -> TRUE                                                 \* poles and domain errors are property C12's
    [] ent.k = 1 -> dr.cls \in {"zero", "sub"} \/ (dr.cls = "normal" /\ dr.ef <= 5)   \* exact zero: at most 16 * MIN
    [] ent.k = 0 ->
         LET lo == (1 - Bias(f)) + 2   hi == Bias(f) - 2 IN
         IF ent.e >= lo /\ ent.e <= hi
         THEN \* |R - E| <= (B2 * 128 + 2) units of 2^(e - p - 7)   (lgamma: ulps of max(|result|, 1))
              /\ dr.cls \in {"zero", "sub", "normal"}
              /\ LET ue == (IF fn = "lgamma" /\ ent.e < 0 THEN 0 ELSE ent.e) - p - 7
                     diff == IF dr.m = <<>> THEN [m |-> ent.m, e |-> ent.e - p - 7, zero |-> FALSE]
                             ELSE AddExactP(100000, dr.s, dr.m, dr.e, 1 - ent.s, ent.m, ent.e - p - 7)
                 IN diff.zero \/ CmpScaled(diff.m, diff.e, BAdd(BMulSmall(FromInt(B2At(fn, f, x, yl)), 128), <<2>>), ue) <= 0      \* (B2 * 128 + 2 may exceed 2^31: digit arithmetic)
         ELSE IF ent.e > hi
         THEN \* overflow side: correct sign, +-inf or at least MAX / 16; never NaN
              /\ dr.cls \in {"inf", "normal"} /\ dr.s = ent.s
              /\ (dr.cls = "inf" \/ TopExp(dr) >= Bias(f) - 3)
         ELSE \* underflow side: correct sign (or a zero of either sign), magnitude at most 16 * MIN; never NaN
              /\ dr.cls \in {"zero", "sub", "normal"}
              /\ (dr.cls = "zero" \/ dr.s = ent.s)
              /\ (dr.cls # "normal" \/ dr.ef <= 5)
=============================================================================
