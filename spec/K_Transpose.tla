----------------------------- MODULE K_Transpose -----------------------------
(***************************************************************************)
(* Kernel refinement (property C05): xsimd's transpose kernels transcribed     *)
(* over modelled data-movement primitives and checked against the definition   *)
(* (row i, lane j of the result is row j, lane i of the input).  The kernels    *)
(* only move lanes, so one symbolic matrix whose entry (i, j) is the atom        *)
(* <<i, j>> decides them for every content.                                      *)
(*  Gen16   generic 8x8 of 16-bit lanes from zip_lo/zip_hi at 16/32/64 bits       *)
(*          (xsimd_generic_memory.hpp:714-751)                                    *)
(*  Gen8    generic 16x16 of 8-bit lanes from zips at 8/16/32/64 bits (:759-840)   *)
(*  AvxF32  8x8 float: unpack, shuffle_ps, permute2f128 (xsimd_avx.hpp:1592-1629)  *)
(*  AvxF64  4x4 double: unpack_pd + permute2f128 (xsimd_avx.hpp:1643-1659)         *)
(*  Avx16   16x16 of 16-bit lanes as four 8x8 blocks + merge (xsimd_avx.hpp:1673-) *)
(*  Sse64   2x2 of 64-bit lanes: unpacklo/hi_pd (xsimd_sse2.hpp:1697-1704)         *)
(***************************************************************************)
EXTENDS Integers, Sequences, TLC
VARIABLE ph
Seq1(f, n) == SubSeq(f, 1, n)
Mat(n) == Seq1([i \in 1 .. n |-> Seq1([j \in 1 .. n |-> <<i, j>>], n)], n)
TransposeOf(m) == LET n == Len(m) IN Seq1([i \in 1 .. n |-> Seq1([j \in 1 .. n |-> m[j][i]], n)], n)
\* zip of groups of w atoms: lo interleaves the first halves of a and b, hi the second halves
Grp(a, w, g) == SubSeq(a, (g - 1) * w + 1, g * w)
RECURSIVE Cat(_, _)
Cat(ss, i) == IF i > Len(ss) THEN <<>> ELSE ss[i] \o Cat(ss, i + 1)
Zip(a, b, w, base) == LET k == Len(a) \div w IN Cat(Seq1([g \in 1 .. k |-> IF g % 2 = 1 THEN Grp(a, w, base + (g + 1) \div 2) ELSE Grp(b, w, base + g \div 2)], k), 1)
ZipLo(a, b, w) == Zip(a, b, w, 0)
ZipHi(a, b, w) == Zip(a, b, w, (Len(a) \div w) \div 2)

Gen16(m) ==
  LET l0 == ZipLo(m[1], m[2], 1)  l1 == ZipLo(m[3], m[4], 1)  l2 == ZipLo(m[5], m[6], 1)  l3 == ZipLo(m[7], m[8], 1)
      l4 == ZipLo(l0, l1, 2)  l5 == ZipLo(l2, l3, 2)  l6 == ZipHi(l0, l1, 2)  l7 == ZipHi(l2, l3, 2)
      h0 == ZipHi(m[1], m[2], 1)  h1 == ZipHi(m[3], m[4], 1)  h2 == ZipHi(m[5], m[6], 1)  h3 == ZipHi(m[7], m[8], 1)
      h4 == ZipLo(h0, h1, 2)  h5 == ZipLo(h2, h3, 2)  h6 == ZipHi(h0, h1, 2)  h7 == ZipHi(h2, h3, 2)
  IN <<ZipLo(l4, l5, 4), ZipHi(l4, l5, 4), ZipLo(l6, l7, 4), ZipHi(l6, l7, 4), ZipLo(h4, h5, 4), ZipHi(h4, h5, 4), ZipLo(h6, h7, 4), ZipHi(h6, h7, 4)>>

Gen8(m) ==
  LET l(i) == ZipLo(m[2 * i + 1], m[2 * i + 2], 1)  h(i) == ZipHi(m[2 * i + 1], m[2 * i + 2], 1)       \* l0..l7, h0..h7
      L(i) == IF i < 4 THEN ZipLo(l(2 * i), l(2 * i + 1), 2) ELSE ZipHi(l(2 * (i - 4)), l(2 * (i - 4) + 1), 2)
      H(i) == IF i < 4 THEN ZipLo(h(2 * i), h(2 * i + 1), 2) ELSE ZipHi(h(2 * (i - 4)), h(2 * (i - 4) + 1), 2)
      \* m0..m7 from L, M0..M7 from H: (0,1) lo/(2,3) lo/(0,1) hi/(2,3) hi of the first four, then of the last four
      mm(X(_), i) == LET b == IF i < 4 THEN 0 ELSE 4  k == i % 4 IN
                     IF k = 0 THEN ZipLo(X(b), X(b + 1), 4) ELSE IF k = 1 THEN ZipLo(X(b + 2), X(b + 3), 4)
                     ELSE IF k = 2 THEN ZipHi(X(b), X(b + 1), 4) ELSE ZipHi(X(b + 2), X(b + 3), 4)
      out(X(_), r) == LET b == IF r < 4 THEN 0 ELSE 4  k == r % 4 IN          \* rows r = 0..7 of one half
                     IF k = 0 THEN ZipLo(mm(X, b), mm(X, b + 1), 8) ELSE IF k = 1 THEN ZipHi(mm(X, b), mm(X, b + 1), 8)
                     ELSE IF k = 2 THEN ZipLo(mm(X, b + 2), mm(X, b + 3), 8) ELSE ZipHi(mm(X, b + 2), mm(X, b + 3), 8)
  IN Seq1([r \in 1 .. 16 |-> IF r <= 8 THEN out(L, r - 1) ELSE out(H, r - 9)], 16)

\* 256-bit float primitives: two 128-bit halves of four lanes
Half(a, hh) == SubSeq(a, 4 * hh + 1, 4 * hh + 4)
UnpackLoPs(a, b) == Cat(<<<<a[1], b[1], a[2], b[2]>>, <<a[5], b[5], a[6], b[6]>>>>, 1)
UnpackHiPs(a, b) == Cat(<<<<a[3], b[3], a[4], b[4]>>, <<a[7], b[7], a[8], b[8]>>>>, 1)
ShufflePs(a, b, z, y, x, w) == Cat(Seq1([hh \in 1 .. 2 |-> <<a[4 * (hh - 1) + w + 1], a[4 * (hh - 1) + x + 1], b[4 * (hh - 1) + y + 1], b[4 * (hh - 1) + z + 1]>>], 2), 1)   \* _MM_SHUFFLE(z, y, x, w)
Perm2f128(a, b, imm, hw) == LET sel(c) == IF c = 0 THEN SubSeq(a, 1, hw) ELSE IF c = 1 THEN SubSeq(a, hw + 1, 2 * hw) ELSE IF c = 2 THEN SubSeq(b, 1, hw) ELSE SubSeq(b, hw + 1, 2 * hw)
                            IN sel(imm % 16) \o sel(imm \div 16)
AvxF32(m) ==
  LET t0 == UnpackLoPs(m[1], m[2])  t1 == UnpackHiPs(m[1], m[2])  t2 == UnpackLoPs(m[3], m[4])  t3 == UnpackHiPs(m[3], m[4])
      t4 == UnpackLoPs(m[5], m[6])  t5 == UnpackHiPs(m[5], m[6])  t6 == UnpackLoPs(m[7], m[8])  t7 == UnpackHiPs(m[7], m[8])
      r0 == ShufflePs(t0, t2, 1, 0, 1, 0)  r1 == ShufflePs(t0, t2, 3, 2, 3, 2)  r2 == ShufflePs(t1, t3, 1, 0, 1, 0)  r3 == ShufflePs(t1, t3, 3, 2, 3, 2)
      r4 == ShufflePs(t4, t6, 1, 0, 1, 0)  r5 == ShufflePs(t4, t6, 3, 2, 3, 2)  r6 == ShufflePs(t5, t7, 1, 0, 1, 0)  r7 == ShufflePs(t5, t7, 3, 2, 3, 2)
  IN <<Perm2f128(r0, r4, 32, 4), Perm2f128(r1, r5, 32, 4), Perm2f128(r2, r6, 32, 4), Perm2f128(r3, r7, 32, 4),
       Perm2f128(r0, r4, 49, 4), Perm2f128(r1, r5, 49, 4), Perm2f128(r2, r6, 49, 4), Perm2f128(r3, r7, 49, 4)>>
UnpackLoPd(a, b) == <<a[1], b[1], a[3], b[3]>>
UnpackHiPd(a, b) == <<a[2], b[2], a[4], b[4]>>
AvxF64(m) ==
  LET t0 == UnpackLoPd(m[1], m[2])  t1 == UnpackHiPd(m[1], m[2])  t2 == UnpackLoPd(m[3], m[4])  t3 == UnpackHiPd(m[3], m[4])
  IN <<Perm2f128(t0, t2, 32, 2), Perm2f128(t1, t3, 32, 2), Perm2f128(t0, t2, 49, 2), Perm2f128(t1, t3, 49, 2)>>
\* 16x16 of 16-bit lanes on avx: four 8x8 blocks transposed by the 128-bit kernel (Gen16, shown correct above) and merged
Avx16(m) ==
  LET lo0 == Gen16(Seq1([i \in 1 .. 8 |-> SubSeq(m[i], 1, 8)], 8))        hi0 == Gen16(Seq1([i \in 1 .. 8 |-> SubSeq(m[8 + i], 1, 8)], 8))
      lo1 == Gen16(Seq1([i \in 1 .. 8 |-> SubSeq(m[i], 9, 16)], 8))       hi1 == Gen16(Seq1([i \in 1 .. 8 |-> SubSeq(m[8 + i], 9, 16)], 8))
  IN Seq1([i \in 1 .. 16 |-> IF i <= 8 THEN lo0[i] \o hi0[i] ELSE lo1[i - 8] \o hi1[i - 8]], 16)
Sse64(m) == <<<<m[1][1], m[2][1]>>, <<m[1][2], m[2][2]>>>>

Init == ph = 0
Next == ph < 6 /\ ph' = ph + 1
TransposeOK ==
  CASE ph = 0 -> Gen16(Mat(8)) = TransposeOf(Mat(8))
    [] ph = 1 -> Gen8(Mat(16)) = TransposeOf(Mat(16))
    [] ph = 2 -> AvxF32(Mat(8)) = TransposeOf(Mat(8))
    [] ph = 3 -> AvxF64(Mat(4)) = TransposeOf(Mat(4))
    [] ph = 4 -> Avx16(Mat(16)) = TransposeOf(Mat(16))
    [] ph = 5 -> Sse64(Mat(2)) = TransposeOf(Mat(2))
    [] OTHER -> TRUE
=============================================================================
