------------------------------- MODULE AllocGen -------------------------------
(***************************************************************************)
(* Behaviour generator for property C18 (spec -> impl direction): the COMMAND  *)
(* sequences a client of aligned_allocator can issue - allocate(T, Align, n)    *)
(* into a free slot, deallocate of a live slot - with the allocator's answers   *)
(* left out (they are the implementation's freedom and are judged afterwards by  *)
(* T_Alloc on the recorded trace).  TLC enumerates (BFS, depth <= Depth) or       *)
(* samples (-simulate) the command language; every behaviour that reaches         *)
(* quiescence (all slots released) at length >= MinLen is printed as one JSON      *)
(* line and replayed against the real allocator by checks/c18.py.                  *)
(***************************************************************************)
EXTENDS Integers, Sequences, FiniteSets, TLC, Json
CONSTANTS Depth, MinLen, MaxLive, Elts, Aligns, Counts
VARIABLES hist, live          \* hist: sequence of commands; live: slot -> <<elt, align>> of the blocks requested and not yet released
Slots == 0 .. MaxLive - 1
Init == hist = <<>> /\ live = [s \in {} |-> <<>>]
Alloc == /\ Len(hist) < Depth /\ Cardinality(DOMAIN live) < MaxLive
         /\ \E s \in Slots \ DOMAIN live : \E t \in Elts, a \in Aligns, n \in Counts :
              /\ (\A s2 \in Slots \ DOMAIN live : s <= s2)                       \* lowest free slot: slots are interchangeable
              /\ hist' = Append(hist, [op |-> "allocate", slot |-> s, t |-> t, a |-> a, n |-> n])
              /\ live' = [x \in DOMAIN live \cup {s} |-> IF x = s THEN <<t, a>> ELSE live[x]]
Free == /\ Len(hist) < Depth + Cardinality(DOMAIN live)                          \* releasing is always possible: histories end quiescent
        /\ \E s \in DOMAIN live :
              /\ hist' = Append(hist, [op |-> "deallocate", slot |-> s, t |-> live[s][1], a |-> live[s][2], n |-> 0])
              /\ live' = [x \in DOMAIN live \ {s} |-> live[x]]
Next == Alloc \/ Free
\* printed when a history is complete (quiescent and long enough); the constraint also stops the exploration there
Emit == (DOMAIN live = {} /\ Len(hist) >= MinLen) => PrintT("HIST " \o ToJson(hist))
Bound == Len(hist) <= Depth + MaxLive /\ ~(DOMAIN live = {} /\ Len(hist) >= MinLen)
=============================================================================
