CONSTANTS Lanes = {1, 2}
 Grid <- GridDef
 Clamped = FALSE
 TgLimit2 = 72
SPECIFICATION Spec
INVARIANT Bound
PROPERTY Termination
CONSTRAINT Cap
CHECK_DEADLOCK FALSE
