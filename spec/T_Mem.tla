--------------------------------- MODULE T_Mem ---------------------------------
(* Trace specification for C04: stores ("st", "cst"), loads ("ld", "cld"), gather / *)
(* scatter ("ga") and lane-numbering events ("ln") recorded in the guarded arena.     *)
EXTENDS Mem, LaneFloat, Json, IOUtils
VARIABLE l
Log == ndJsonDeserialize(IOEnv.TRACE)
NBT(t) == CASE t \in {"i8", "u8"} -> 1 [] t \in {"i16", "u16"} -> 2 [] t \in {"i32", "u32", "f32"} -> 4 [] OTHER -> 8
Changed(r) == LET n == r[1] + 256 * r[2]  cap == (Len(r) - 2) \div 3  m == IF n < 600 THEN n ELSE 600        \* never index past the recorded row
              IN {<<r[3 * k] + 256 * r[3 * k + 1], r[3 * k + 2]>> : k \in 1 .. (IF m < cap THEN m ELSE cap)}
AlignOf(arch, w) == IF arch = "emulated" THEN 1 ELSE w
IsAligned(op) == op \in {"store_aligned", "xstore_aligned", "store_tag_a", "store_as_a", "load_aligned", "xload_aligned", "load_tag_a", "load_as_a",
                         "batch_load_tag_a", "bool_store_aligned", "bool_load_aligned"}
Reg(e) == SubSeq(e.a, 1, e.w)
KindOf(t) == IF t \in {"f32", "f64"} THEN "float" ELSE "int"
SignedT(t) == t \in {"i8", "i16", "i32", "i64"}
\* C04 is about WHICH element is accessed; the value conversion of the converting forms is documented as static_cast but is not one of the
\* conversions C06 lists, and the avx2/avx512f hand-made double -> int32 gathers round to nearest where the generic kernel truncates
\* (DESIGN 0.3).  A floating -> integer element may therefore arrive truncated OR rounded to nearest even; every other conversion is exact.
CvtLane(tf, x, tt, r) ==
  IF KindOf(tf) = "float" /\ KindOf(tt) = "int"
  THEN LET f == FmtOfBytes(Len(x)) IN
       ~(TruncFits(f, x, SignedT(tt), NBT(tt)) /\ NearFits(f, x, SignedT(tt), NBT(tt)))
       \/ r = FloatToIntTrunc(f, x, SignedT(tt), NBT(tt)) \/ r = FloatToIntNear(f, x, SignedT(tt), NBT(tt))
  ELSE CvtRel(KindOf(tf), SignedT(tf), x, KindOf(tt), SignedT(tt), NBT(tt), r)
IdxOf(b, t, i) == LET nb == NBT(t) IN b[i * nb + 1] + (IF nb > 1 THEN 256 * b[i * nb + 2] ELSE 0)      \* indices are < 64: low bytes suffice
OK(e) ==
  LET nb == NBT(e.t)  n == e.w \div nb  p == e.imm IN
  CASE e.k = "st" /\ e.op \in {"bool_store_unaligned", "bool_store_aligned"} ->
         StoreObservedOK(p, [i \in 1 .. n |-> IF e.a[i] # 0 THEN 1 ELSE 0], Changed(e.r)) /\ e.r[1] + 256 * e.r[2] <= n
    [] e.k = "st" -> StoreObservedOK(p, Reg(e), Changed(e.r)) /\ e.r[1] + 256 * e.r[2] <= e.w
    [] e.k = "ld" /\ e.op \in {"bool_load_unaligned", "bool_load_aligned"} ->
         InPage(p, n) /\ SubSeq(e.r, 1, n) = [i \in 1 .. n |-> IF e.a[i] # 0 THEN 1 ELSE 0]
    [] e.k = "ld" -> LoadObservedOK(p, Reg(e), SubSeq(e.r, 1, e.w), e.r[e.w + 1])
    [] e.k = "cst" -> LET bs == Interleave(SubSeq(e.a, 1, e.w), SubSeq(e.b, 1, e.w), nb, 0) IN
                      StoreObservedOK(p, bs, Changed(e.r)) /\ e.r[1] + 256 * e.r[2] <= 2 * e.w
    [] e.k = "cld" -> InPage(p, 2 * e.w) /\ SubSeq(e.a, 1, 2 * e.w) = Interleave(SubSeq(e.r, 1, e.w), SubSeq(e.r, e.w + 1, 2 * e.w), nb, 0)
    [] e.k = "ga" /\ e.op = "gather" ->
         /\ InPage(p, e.w)
         /\ \A i \in 0 .. n - 1 : SubSeq(e.r, i * nb + 1, (i + 1) * nb) = SubSeq(e.a, IdxOf(e.b, e.t, i) * nb + 1, (IdxOf(e.b, e.t, i) + 1) * nb)
    [] e.k = "ga" /\ e.op = "scatter" ->
         \* distinct indices: table element idx[i] receives lane i; nothing else changes
         LET bs == [j \in 1 .. e.w |-> LET el == (j - 1) \div nb  i == CHOOSE q \in 0 .. n - 1 : IdxOf(e.b, e.t, q) = el IN e.a[i * nb + ((j - 1) % nb) + 1]]
         IN StoreObservedOK(p, bs, Changed(e.r)) /\ e.r[1] + 256 * e.r[2] <= e.w
    \* converting forms: the table holds n elements of type e.u (rows a and c); each accessed element is converted as C06 prescribes
    [] e.k = "ga" /\ e.op = "gather_cv" ->
         LET nu == NBT(e.u)  tb == SubSeq(e.a \o e.c, 1, n * nu) IN
         /\ InPage(p, n * nu)
         /\ \A i \in 0 .. n - 1 : LET el == IdxOf(e.b, e.t, i) IN
                                   CvtLane(e.u, SubSeq(tb, el * nu + 1, (el + 1) * nu), e.t, SubSeq(e.r, i * nb + 1, (i + 1) * nb))
    [] e.k = "ga" /\ e.op = "scatter_cv" ->
         LET nu == NBT(e.u)  ch == Changed(e.r) IN
         /\ InPage(p, n * nu) /\ e.r[1] + 256 * e.r[2] <= n * nu
         /\ \A c \in ch : c[1] \in Range(p, n * nu)
         /\ \A i \in 0 .. n - 1 :          \* distinct indices: table element idx[i] holds lane i converted to e.u (bytes equal to the canary are not reported)
              LET el == IdxOf(e.b, e.t, i)
                  got == [j \in 1 .. nu |-> LET ad == p + el * nu + j - 1 IN
                                              IF \E c \in ch : c[1] = ad THEN (CHOOSE c \in ch : c[1] = ad)[2] ELSE Canary(ad)]
              IN CvtLane(e.t, SubSeq(e.a, i * nb + 1, (i + 1) * nb), e.u, Seq1(got, nu))
    [] e.k = "ln" /\ e.op \in {"broadcast", "ctor_bcast"} -> \A i \in 0 .. n - 1 : SubSeq(e.r, i * nb + 1, (i + 1) * nb) = SubSeq(e.a, 1, nb)
    [] e.k = "ln" /\ e.op \in {"get", "ctor_list"} -> SubSeq(e.r, 1, e.w) = Reg(e)                   \* lane i <-> i-th element / i-th constructor argument
    [] e.k = "ln" /\ e.op = "bool_ctor_list" -> SubSeq(e.r, 1, n) = [i \in 1 .. n |-> IF e.a[i] # 0 THEN 1 ELSE 0]
    [] OTHER -> FALSE
\* the contract of the access: inside the page; aligned forms at aligned addresses
InContract(e) == e.k \in {"ln"} \/ (e.imm >= 0 /\ (~IsAligned(e.op) \/ e.imm % e.w = 0))
Init == /\ l = 1 /\ mem = <<>>
        /\ TLCSet(1, 0) /\ TLCSet(2, 0) /\ TLCSet(3, 0) /\ TLCSet(4, 0)
Step ==
  /\ l <= Len(Log)
  /\ LET e == Log[l] IN
     IF e.k # "fault" /\ InContract(e) /\ OK(e)
     THEN mem' = <<e.k, e.op>> /\ TLCSet(1, TLCGet(1) + 1) /\ TLCSet(3, TLCGet(3) + 1)
     ELSE /\ PrintT("REJECT id=" \o ToString(e.id) \o " k=" \o e.k \o " op=" \o e.op \o " t=" \o e.t \o " lanes={} archs=" \o ToString(e.archs)
                    \o " off=" \o ToString(e.imm) \o " known=-")
          /\ TLCSet(2, TLCGet(2) + 1) /\ UNCHANGED mem
  /\ l' = l + 1 /\ TLCSet(4, l)
Next == Step
Accepted == /\ PrintT("STATS events=" \o ToString(Len(Log)) \o " consumed=" \o ToString(TLCGet(4)) \o " accepted=" \o ToString(TLCGet(1))
                       \o " rejected=" \o ToString(TLCGet(2)) \o " lanes=" \o ToString(TLCGet(3)))
            /\ TLCGet(4) = Len(Log)
=============================================================================
