------------------------------- MODULE Dispatch -------------------------------
(***************************************************************************)
(* xsimd::dispatch (property C15, second half).  State: walk = [list, pos,   *)
(* called, args, ret].  DispatchStart loads a list (a sequence of            *)
(* architecture names) and the arguments; DispatchProbe(i) skips a position   *)
(* whose architecture is not reported available; DispatchCall(i) invokes the  *)
(* functor - enabled only at the first available position, or at the last     *)
(* position when nothing before it is available (the shipped walk calls the   *)
(* last architecture unconditionally: walk_archs(arch_list<Arch>),            *)
(* xsimd_arch.hpp:199-204).  Properties: exactly one call; it goes to the     *)
(* first reported-available architecture of the list when there is one; the   *)
(* arguments are forwarded - values AND value categories (args[3] is the      *)
(* category of an argument object: const lvalue, lvalue, rvalue; the functor   *)
(* reports the one its overload resolution bound) - and the functor's result   *)
(* is returned.                                                                *)
(***************************************************************************)
EXTENDS Integers, Sequences, FiniteSets, TLC
CONSTANTS ArchUniverse, MaxLen
VARIABLES walk, avail
dvars == <<walk, avail>>
Idle == [list |-> <<>>, pos |-> 0, called |-> <<>>, args |-> <<>>, ret |-> -1]
\* the functor of the harness: result derived from the arguments and the architecture it was called with
F(archid, args) == args[1] * 31 + args[2] * 7 + archid

FirstAvail(list, fl) == IF \E i \in 1 .. Len(list) : fl[list[i]]
                        THEN CHOOSE i \in 1 .. Len(list) : fl[list[i]] /\ \A j \in 1 .. i - 1 : ~fl[list[j]]
                        ELSE 0
\* K_Dispatch: the recursion of dispatcher::walk_archs
RECURSIVE WalkFrom(_, _, _)
WalkFrom(list, fl, i) == IF i = Len(list) THEN i ELSE IF fl[list[i]] THEN i ELSE WalkFrom(list, fl, i + 1)

DispatchStart(list, args) == /\ walk.pos = 0 /\ Len(list) >= 1
                             /\ walk' = [list |-> list, pos |-> 1, called |-> <<>>, args |-> args, ret |-> -1] /\ UNCHANGED avail
DispatchProbe == /\ walk.pos >= 1 /\ walk.pos < Len(walk.list) /\ walk.called = <<>>
                 /\ ~avail[walk.list[walk.pos]]
                 /\ walk' = [walk EXCEPT !.pos = @ + 1] /\ UNCHANGED avail
DispatchCall == /\ walk.pos >= 1 /\ walk.called = <<>>
                /\ (avail[walk.list[walk.pos]] \/ walk.pos = Len(walk.list))
                /\ walk' = [walk EXCEPT !.called = <<walk.list[walk.pos]>>, !.ret = F(walk.list[walk.pos], walk.args)]
                /\ UNCHANGED avail
Lists == UNION {[1 .. k -> ArchUniverse] : k \in 1 .. MaxLen}
Init == walk = Idle /\ avail \in [ArchUniverse -> BOOLEAN]
Next == \/ \E l \in {x \in Lists : \A i, j \in 1 .. Len(x) : i # j => x[i] # x[j]} : DispatchStart(l, <<3, 5, 2>>)
        \/ DispatchProbe \/ DispatchCall
\* ---- properties --------------------------------------------------------------------------------------
AtMostOneCall == Len(walk.called) <= 1
CallIsFirstAvailable ==
  walk.called # <<>> =>
    LET k == FirstAvail(walk.list, avail) IN
    /\ (k # 0 => walk.called[1] = walk.list[k])
    /\ walk.called[1] = walk.list[WalkFrom(walk.list, avail, 1)]          \* the shipped recursion agrees
    /\ walk.ret = F(walk.called[1], walk.args)
\* the outcome a trace must show for a list and a reported availability (no state needed)
DispatchOutcomeOK(list, fl, ncalls, called, args, seen, ret) ==
  /\ ncalls = 1
  /\ LET k == FirstAvail(list, fl) IN k # 0 => called = list[k]
  /\ called \in {list[i] : i \in 1 .. Len(list)}
  /\ seen = args
  /\ ret = F(called, args)
\* the default list (supported_architectures) is ordered best-first with best_arch at its head: it is a sub-sequence of the
\* specification's best-first order of the x86 architectures (ids = positions in Cpuid.ArchNames; the same order as Geometry.SpecArchs)
BestFirstIds == <<23, 21, 20, 19, 18, 22, 16, 17, 15, 14, 13, 11, 12, 10, 9, 8, 7, 6, 5, 4, 3, 2, 1>>
RECURSIVE IsSubSeqFrom(_, _, _, _)
IsSubSeqFrom(lst, i, ref, j) == IF i > Len(lst) THEN TRUE ELSE IF j > Len(ref) THEN FALSE
                                ELSE IF lst[i] = ref[j] THEN IsSubSeqFrom(lst, i + 1, ref, j + 1) ELSE IsSubSeqFrom(lst, i, ref, j + 1)
\* "best-first" as a partial order (the property fixes no order between unrelated extensions of the same width): a wider register file
\* comes first, and an architecture comes before everything it extends.  ParentId / WidthOf follow Geometry.SpecArchs.
ParentId == <<0, 1, 2, 3, 4, 5, 5, 0, 8, 8, 10, 10, 0, 13, 14, 15, 14, 17, 16, 19, 20, 16, 21>>
WidthOf(a) == IF a <= 7 THEN 128 ELSE IF a <= 12 THEN 256 ELSE 512
RECURSIVE Extends(_, _)
Extends(a, b) == ParentId[a] # 0 /\ (ParentId[a] = b \/ Extends(ParentId[a], b))          \* a (transitively) extends b
Better(a, b) == WidthOf(a) > WidthOf(b) \/ Extends(a, b)
NoDup(lst) == \A i, j \in 1 .. Len(lst) : i # j => lst[i] # lst[j]
DefaultListOK(lst, best) == /\ Len(lst) >= 1 /\ NoDup(lst) /\ best = lst[1]
                            /\ \A i, j \in 1 .. Len(lst) : i < j => ~Better(lst[j], lst[i])
ASSUME \A i, j \in 1 .. 23 : i < j => ~Better(BestFirstIds[j], BestFirstIds[i])          \* the specification's own order satisfies it
Termination == <>(walk.called # <<>> \/ walk.pos = 0)
Spec == Init /\ [][Next]_dvars /\ WF_dvars(DispatchProbe) /\ WF_dvars(DispatchCall)
=============================================================================
