-------------------------------- MODULE Reduce --------------------------------
(***************************************************************************)
(* Reductions (property C09).  A reduction relates its scalar result to the   *)
(* BAG of lanes: every lane is used exactly once, in any association order.    *)
(*  integer reduce_add / reduce(f)  : the fold (modular arithmetic is           *)
(*                                    associative and commutative)             *)
(*  floating reduce_add / haddp     : exact when every partial sum of any      *)
(*      order is representable (all lanes multiples of a common 2^k with        *)
(*      sum |x_i| < 2^(k+p)); otherwise within (n-1) roundings of the exact sum: *)
(*      |r - S| <= gamma_(n-1) * sum |x_i|,  gamma_k = k u / (1 - k u), u = 2^-p *)
(*  reduce_max / reduce_min         : a lane value >= / <= every lane            *)
(* K_Reduce (below) is the bag model of the generic halving tree.               *)
(***************************************************************************)
EXTENDS LaneFloat

RECURSIVE FoldSeq(_, _, _, _)
FoldSeq(Op(_, _), xs, i, acc) == IF i > Len(xs) THEN acc ELSE FoldSeq(Op, xs, i + 1, Op(acc, xs[i]))
Fold(Op(_, _), xs) == FoldSeq(Op, xs, 2, xs[1])

IntReduce(op, S, xs) ==
  CASE op \in {"reduce_add", "reduce:add", "haddp"} -> Fold(VAdd, xs)
    [] op = "reduce:mul" -> Fold(VMul, xs)
    [] op = "reduce:and" -> Fold(VAnd, xs)
    [] op = "reduce:or"  -> Fold(VOr, xs)
    [] op = "reduce:xor" -> Fold(VXor, xs)
    [] op \in {"reduce_max", "reduce:max"} -> LET mx(a, b) == VMax(S, a, b) IN Fold(mx, xs)
    [] op \in {"reduce_min", "reduce:min"} -> LET mn(a, b) == VMin(S, a, b) IN Fold(mn, xs)
IntReduceOK(op, S, xs, r) == r = IntReduce(op, S, xs)

\* ---- floating point ---------------------------------------------------------------------------------------
BigP == 100000          \* precision large enough to keep every sum exact
\* exact signed sum and sum of magnitudes of the finite data xs, as [s, m, e, zero]
Val0 == [s |-> 0, m |-> <<>>, e |-> 0, sticky |-> FALSE, zero |-> TRUE]
AddVal(v, s, m, e) == IF m = <<>> THEN v ELSE IF v.zero THEN [s |-> s, m |-> m, e |-> e, sticky |-> FALSE, zero |-> FALSE]
                      ELSE AddExactP(BigP, v.s, v.m, v.e, s, m, e)
RECURSIVE SumRec(_, _, _, _, _)
SumRec(f, xs, i, acc, absolute) ==
  IF i > Len(xs) THEN acc
  ELSE LET d == Dec(f, xs[i]) IN SumRec(f, xs, i + 1, AddVal(acc, IF absolute THEN 0 ELSE d.s, d.m, d.e), absolute)
ExactSum(f, xs) == SumRec(f, xs, 1, Val0, FALSE)
AbsSum(f, xs) == SumRec(f, xs, 1, Val0, TRUE)
AllFinite(f, xs) == \A i \in 1 .. Len(xs) : Dec(f, xs[i]).cls \in {"zero", "sub", "normal"}
MinExp(f, xs) == LET es == {Dec(f, xs[i]).e : i \in {j \in 1 .. Len(xs) : Dec(f, xs[j]).m # <<>>}} IN
                 IF es = {} THEN 0 ELSE CHOOSE e \in es : \A g \in es : e <= g
\* every partial sum of every order is representable
ExactCase(f, xs) == LET t == AbsSum(f, xs)  k == MinExp(f, xs) IN
                    t.zero \/ (BitLen(t.m) + (t.e - k) <= Prec(f))
FloatSumOK(f, xs, r) ==
  IF ~AllFinite(f, xs) THEN TRUE                       \* infinities / NaN among the lanes: outside the generated domain
  ELSE LET S == ExactSum(f, xs)  T == AbsSum(f, xs)  n == Len(xs)  dr == Dec(f, r) IN
       IF ExactCase(f, xs)
       THEN IF S.zero THEN dr.cls = "zero" ELSE r = Round(f, S.s, S.m, S.e, FALSE)
       ELSE IF dr.cls \in {"inf", "nan"} THEN FALSE
       ELSE \* |r - S| * (2^p - (n-1)) <= (n-1) * T
            LET diff == AddVal(IF S.zero THEN Val0 ELSE S, 1 - dr.s, dr.m, dr.e)            \* S - r
                lhs == IF diff.zero THEN <<>> ELSE BMul(diff.m, BSub(BPow2(Prec(f)), FromInt(n - 1)))
                rhs == BMulSmall(T.m, n - 1)
            IN diff.zero \/ CmpScaled(lhs, diff.e, rhs, T.e) <= 0
FloatMaxOK(f, xs, r) == (\E i \in 1 .. Len(xs) : IsNaN(f, xs[i])) \/
                        ((\E i \in 1 .. Len(xs) : xs[i] = r) /\ \A i \in 1 .. Len(xs) : FLe(f, xs[i], r))
FloatMinOK(f, xs, r) == (\E i \in 1 .. Len(xs) : IsNaN(f, xs[i])) \/
                        ((\E i \in 1 .. Len(xs) : xs[i] = r) /\ \A i \in 1 .. Len(xs) : FLe(f, r, xs[i]))
FloatReduceOK(op, f, xs, r) ==
  CASE op \in {"reduce_add", "reduce:add", "haddp"} -> FloatSumOK(f, xs, r)
    [] op \in {"reduce_max", "reduce:max"} -> FloatMaxOK(f, xs, r)
    [] op \in {"reduce_min", "reduce:min"} -> FloatMinOK(f, xs, r)
=============================================================================
