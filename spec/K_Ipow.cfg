CONSTANTS W = 12
 Signed = TRUE
 Halving = "div"
SPECIFICATION Spec
INVARIANT Bound
INVARIANT Result
PROPERTY Termination
CONSTRAINT Cap
CHECK_DEADLOCK FALSE
