--------------------------- MODULE K_RoundGeneric ---------------------------
(***************************************************************************)
(* Kernel refinement: xsimd's generic rounding constructions                *)
(*   trunc  = |x| < maxflint ? to_float(to_int(x)) : x                       *)
(*   ceil   = t < x ? t + 1 : t          floor = t > x ? t - 1 : t           *)
(*   round  = |x| > maxflint ? x : copysign(c - 0.5 > v ? c - 1 : c, x)      *)
(*   nearbyint = s ^ (v < 2^M ? (v + 2^M) - 2^M : v)                          *)
(* (xsimd_generic_rounding.hpp:25-66, xsimd_generic_math.hpp:1860-1895, used  *)
(* by sse2/sse3/ssse3 and every architecture without a rounding instruction)  *)
(* transcribed over the IEEE operators of the specification and checked by    *)
(* TLC against RoundInt for EVERY datum of the one-byte mini-formats (3,2)     *)
(* and (4,3), with a 16-bit integer type for to_int - including |x| >= 2^(M+1), *)
(* exact halves and the values just below one half.                            *)
(***************************************************************************)
EXTENDS LaneFloat, TLC
VARIABLES x, fm
Fmts == {[E |-> 3, M |-> 2], [E |-> 4, M |-> 3]}
MaxFlint(f) == Enc(f, 0, Bias(f) + f.M + 1, <<>>)          \* 2^(M+1)
TwoToNmb(f) == Enc(f, 0, Bias(f) + f.M, <<>>)              \* 2^M
OneF(f) == Enc(f, 0, Bias(f), <<>>)
HalfF(f) == Enc(f, 0, Bias(f) - 1, <<>>)
Sel(c, a, b) == IF c THEN a ELSE b
V(r) == IF r = NaNRes THEN <<255>> ELSE r                  \* a NaN datum stands for "some NaN"
ToIntK(f, d) == FloatToIntTrunc(f, d, TRUE, 2)
ToFloatK(f, i) == IntToFloat(f, TRUE, i)
TruncK(f, d) == Sel(FLt(f, FAbs(f, d), MaxFlint(f)), ToFloatK(f, ToIntK(f, d)), d)
CeilK(f, d) == LET t == TruncK(f, d) IN Sel(FLt(f, t, d), V(FAdd(f, t, OneF(f))), t)
FloorK(f, d) == LET t == TruncK(f, d) IN Sel(FLt(f, d, t), V(FSub(f, t, OneF(f))), t)
RoundK(f, d) == LET v == FAbs(f, d)  c == CeilK(f, v)
                    cp == Sel(FLt(f, v, V(FSub(f, c, HalfF(f)))), V(FSub(f, c, OneF(f))), c)
                IN Sel(FLt(f, MaxFlint(f), v), d, FCopySign(f, cp, d))
NearbyK(f, d) == LET s == BitOfSign(f, d)  v == VXor(d, s)
                     d1 == V(FSub(f, V(FAdd(f, v, TwoToNmb(f))), TwoToNmb(f)))
                 IN VXor(s, Sel(FLt(f, v, TwoToNmb(f)), d1, v))
Init == fm \in Fmts /\ x \in 0 .. 255
Next == UNCHANGED <<x, fm>>
D == <<x>>
Valid == x < 2 ^ (1 + fm.E + fm.M)
Refines ==
  Valid =>
    /\ SameNumber(fm, RoundInt(fm, D, "zero"), TruncK(fm, D))
    /\ SameNumber(fm, RoundInt(fm, D, "up"), CeilK(fm, D))
    /\ SameNumber(fm, RoundInt(fm, D, "down"), FloorK(fm, D))
    /\ SameNumber(fm, RoundInt(fm, D, "away"), RoundK(fm, D))
    /\ SameNumber(fm, RoundInt(fm, D, "even"), NearbyK(fm, D))
=============================================================================
