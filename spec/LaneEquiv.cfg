INIT Init
NEXT Next
INVARIANTS Equiv8 Equiv16
CHECK_DEADLOCK FALSE
