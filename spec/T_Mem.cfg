CONSTANT PageSize = 4096
INIT Init
NEXT Next
POSTCONDITION Accepted
CHECK_DEADLOCK FALSE
