CONSTANTS NMax = 13
 NPair = 6
INIT Init
NEXT Next
INVARIANTS Laws Wide
CHECK_DEADLOCK FALSE
