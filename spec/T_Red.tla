-------------------------------- MODULE T_Red --------------------------------
(* Trace specification for reduction events (C09): kind "red", register-granular. *)
EXTENDS Xsimd, Json, IOUtils
VARIABLE l
Log == ndJsonDeserialize(IOEnv.TRACE)
RejectLine(e, bad) == "REJECT id=" \o ToString(e.id) \o " k=" \o e.k \o " op=" \o e.op \o " t=" \o e.t \o " w=" \o ToString(e.w)
                      \o " lanes=" \o ToString(bad) \o " archs=" \o ToString(e.archs) \o " known=-" \o " r=" \o ToString(e.r)
Init == /\ l = 1 /\ reg = [i \in 0 .. 3 |-> NoRow] /\ breg = <<>> /\ last = <<>>
        /\ TLCSet(1, 0) /\ TLCSet(2, 0) /\ TLCSet(3, 0) /\ TLCSet(4, 0)
Rej(e, bad) == /\ PrintT(RejectLine(e, bad)) /\ TLCSet(2, TLCGet(2) + 1) /\ UNCHANGED xvars
Acc(n) == TLCSet(1, TLCGet(1) + 1) /\ TLCSet(3, TLCGet(3) + n)
Step ==
  /\ l <= Len(Log)
  /\ LET e == Log[l] IN
     IF e.k # "red" \/ e.t \notin TypeNames \/ e.w = 0 THEN Rej(e, {})
     ELSE LET n == e.w \div TypeTab[e.t].nb IN
          IF ReduceCond(e.op, e.t, n, e.a, IF "b" \in DOMAIN e THEN e.b ELSE e.a, e.r) THEN ReduceUpd(e.op, e.t, e.a, e.r) /\ Acc(n)     \* = taking ReduceWith
          ELSE Rej(e, IF e.op = "haddp" THEN HaddBad(e.t, n, e.a, IF "b" \in DOMAIN e THEN e.b ELSE e.a, e.r) ELSE {})
  /\ l' = l + 1 /\ TLCSet(4, l)
Next == Step
Accepted == /\ PrintT("STATS events=" \o ToString(Len(Log)) \o " consumed=" \o ToString(TLCGet(4)) \o " accepted=" \o ToString(TLCGet(1))
                       \o " rejected=" \o ToString(TLCGet(2)) \o " lanes=" \o ToString(TLCGet(3)))
            /\ TLCGet(4) = Len(Log)
=============================================================================
