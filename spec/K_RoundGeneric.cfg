INIT Init
NEXT Next
INVARIANT Refines
CHECK_DEADLOCK FALSE
