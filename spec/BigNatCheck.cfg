CONSTANTS K = 11
 NRand = 1024
INIT Init
NEXT Next
INVARIANTS AllPairs Wide
CHECK_DEADLOCK FALSE
